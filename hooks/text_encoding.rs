// Hook module for oxidize-pdf-core/src/text/encoding.rs (child module: sees the private items of its parent).
// cfg(kani): complete harnesses over all `char` / all `u8` against the Annex D oracle.
// cfg(oxidizepdf_verif): accessors for the replay crate.
#[allow(unused_imports)]
use super::*;

#[cfg(kani)]
mod kani_h {
    use super::super::*;
    include!("/verif/hooks/specs_annexd.rs");

    // C25: every character with a WinAnsi slot encodes to that slot; characters outside the repertoire are reported
    #[kani::proof]
    fn c25_winansi_encode_char_annexd() {
        let c: char = kani::any();
        let r = winansi_encode_char(c);
        match annexd_win_encode(c as u32) {
            Expect::Must(b) => assert!(r == Some(b)),
            Expect::Absent => assert!(r.is_none()),
            Expect::Free => {}
        }
        kani::cover!(r.is_some() && (c as u32) > 0xFF);
    }
    // C25: every defined WinAnsi code decodes to its Annex D character (contract in place on the real function)
    #[kani::proof_for_contract(winansi_decode_char)]
    fn c25_winansi_decode_char_contract() {
        let b: u8 = kani::any();
        let r = winansi_decode_char(b);
        if let Some(u) = annexd_win_decode(b) { assert!(r as u32 == u); }
        kani::cover!(b >= 0x80);
    }
    // C25: encode and decode are mutually inverse on the repertoire
    #[kani::proof]
    fn c25_winansi_inverse() {
        let c: char = kani::any();
        if let Some(b) = winansi_encode_char(c) { assert!(winansi_decode_char(b) == c); }
        let b: u8 = kani::any();
        if annexd_win_decode(b).is_some() { assert!(winansi_encode_char(winansi_decode_char(b)) == Some(b)); }
    }
    #[kani::proof]
    fn c25_macroman_encode_char_annexd() {
        let c: char = kani::any();
        let r = macroman_encode_char(c);
        match annexd_mac_encode(c as u32) {
            Expect::Must(b) => assert!(r == Some(b)),
            Expect::Absent => assert!(r.is_none()),
            Expect::Free => {}
        }
        kani::cover!(r.is_some() && (c as u32) > 0xFF);
    }
    // C10 kernel: the main writer emits a text string as its UTF-8 bytes and the reader's non-BOM path decodes each byte
    // with winansi_decode_char. A character therefore reads back unchanged iff utf8(c) is one byte b with decode(b) == c.
    #[kani::proof]
    fn c10_text_kernel_ascii() {
        let c: char = kani::any();
        kani::assume((c as u32) < 0x80);
        let mut buf = [0u8; 4];
        let n = c.encode_utf8(&mut buf).len();
        assert!(n == 1 && winansi_decode_char(buf[0]) == c);
    }
    // the same statement for every other character: expected to FAIL on the current tree (known finding KF-C10-utf8)
    #[kani::proof]
    fn c10_text_kernel_non_ascii() {
        let c: char = kani::any();
        kani::assume((c as u32) >= 0x80);
        let mut buf = [0u8; 4];
        let n = c.encode_utf8(&mut buf).len();
        assert!(n == 1 && winansi_decode_char(buf[0]) == c);
    }
}

#[cfg(oxidizepdf_verif)]
pub fn verif_escape_show_text_literal_bytes(b: &[u8]) -> Vec<u8> { escape_show_text_literal_bytes(b) }
