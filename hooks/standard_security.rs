// Hook module for encryption/standard_security.rs (compiled only under cfg(kani))
#[cfg(kani)]
mod kani_h {
    use super::super::*;
    // ISO 32000-1 Algorithm 2, step (a): the password is truncated or padded to exactly 32 bytes with the leading bytes of the
    // padding string of 7.6.3.3 (transcribed here from the standard, not from the code)
    const ISO_PADDING: [u8; 32] = [
        0x28, 0xBF, 0x4E, 0x5E, 0x4E, 0x75, 0x8A, 0x41, 0x64, 0x00, 0x4E, 0x56, 0xFF, 0xFA, 0x01, 0x08,
        0x2E, 0x2E, 0x00, 0xB6, 0xD0, 0x68, 0x3E, 0x80, 0x2F, 0x0C, 0xA9, 0xFE, 0x64, 0x53, 0x69, 0x7A,
    ];
    macro_rules! pad_harness { ($name:ident, $n:expr) => {
        #[kani::proof]
        #[kani::unwind(40)]
        fn $name() {
            // every ASCII password of exactly $n bytes (complete for this length; the length set {0,1,31,32,33} covers below, at
            // and above the 32-byte boundary)
            let bytes: [u8; $n] = kani::any();
            let mut i = 0; while i < $n { kani::assume(bytes[i] < 0x80); i += 1; }
            let s = unsafe { core::str::from_utf8_unchecked(&bytes) };
            let r = StandardSecurityHandler::pad_password(s);
            let mut k = 0;
            while k < 32 {
                if k < $n { assert!(r[k] == bytes[k]); } else { assert!(r[k] == ISO_PADDING[k - $n]); }
                k += 1;
            }
        }
    }}
    pad_harness!(c23_pad_password_0, 0); pad_harness!(c23_pad_password_1, 1); pad_harness!(c23_pad_password_31, 31);
    pad_harness!(c23_pad_password_32, 32); pad_harness!(c23_pad_password_33, 33);
    // passwords whose 32nd byte falls INSIDE a multi-byte UTF-8 character: "use only its first 32 bytes" (Algorithm 2 step a) cuts the
    // character in half; every such password made of $a ASCII bytes followed by one $t-byte character ($a + $t = 33)
    macro_rules! pad_harness_split { ($name:ident, $a:expr, $t:expr) => {
        #[kani::proof]
        #[kani::unwind(40)]
        fn $name() {
            let mut bytes: [u8; 33] = kani::any();
            let mut i = 0; while i < $a { kani::assume(bytes[i] < 0x80); i += 1; }
            // a well-formed $t-byte sequence (lead byte ranges that need no further constraints on the continuation bytes)
            if $t == 2 { kani::assume(bytes[$a] >= 0xC2 && bytes[$a] <= 0xDF); }
            if $t == 3 { kani::assume(bytes[$a] >= 0xE1 && bytes[$a] <= 0xEC); }
            if $t == 4 { kani::assume(bytes[$a] >= 0xF1 && bytes[$a] <= 0xF3); }
            let mut j = $a + 1; while j < 33 { kani::assume(bytes[j] >= 0x80 && bytes[j] <= 0xBF); j += 1; }
            if false { bytes[0] = 0; }
            let s = unsafe { core::str::from_utf8_unchecked(&bytes) };
            let r = StandardSecurityHandler::pad_password(s);
            let mut k = 0;
            while k < 32 { assert!(r[k] == bytes[k]); k += 1; }
        }
    }}
    pad_harness_split!(c23_pad_password_split2, 31, 2); pad_harness_split!(c23_pad_password_split3, 30, 3); pad_harness_split!(c23_pad_password_split4, 29, 4);
}
