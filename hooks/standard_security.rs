// Hook module for encryption/standard_security.rs (compiled only under cfg(kani))
#[cfg(kani)]
mod kani_h {
    use super::super::*;
    // ISO 32000-1 Algorithm 2, step (a): the password is truncated or padded to exactly 32 bytes with the leading bytes of the
    // padding string of 7.6.3.3 (transcribed here from the standard, not from the code)
    const ISO_PADDING: [u8; 32] = [
        0x28, 0xBF, 0x4E, 0x5E, 0x4E, 0x75, 0x8A, 0x41, 0x64, 0x00, 0x4E, 0x56, 0xFF, 0xFA, 0x01, 0x08,
        0x2E, 0x2E, 0x00, 0xB6, 0xD0, 0x68, 0x3E, 0x80, 0x2F, 0x0C, 0xA9, 0xFE, 0x64, 0x53, 0x69, 0x7A,
    ];
    macro_rules! pad_harness { ($name:ident, $n:expr) => {
        #[kani::proof]
        #[kani::unwind(40)]
        fn $name() {
            // every ASCII password of exactly $n bytes (complete for this length; the length set {0,1,31,32,33} covers below, at
            // and above the 32-byte boundary)
            let bytes: [u8; $n] = kani::any();
            let mut i = 0; while i < $n { kani::assume(bytes[i] < 0x80); i += 1; }
            let s = unsafe { core::str::from_utf8_unchecked(&bytes) };
            let r = StandardSecurityHandler::pad_password(s);
            let mut k = 0;
            while k < 32 {
                if k < $n { assert!(r[k] == bytes[k]); } else { assert!(r[k] == ISO_PADDING[k - $n]); }
                k += 1;
            }
        }
    }}
    pad_harness!(c23_pad_password_0, 0); pad_harness!(c23_pad_password_1, 1); pad_harness!(c23_pad_password_31, 31);
    pad_harness!(c23_pad_password_32, 32); pad_harness!(c23_pad_password_33, 33);
}
