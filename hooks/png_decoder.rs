// Hook module for graphics/png_decoder.rs
#[cfg(kani)]
mod kani_h {
    use super::super::*;
    fn paeth_spec(a: u8, b: u8, c: u8) -> u8 {
        let p = a as i32 + b as i32 - c as i32;
        let pa = (p - a as i32).abs(); let pb = (p - b as i32).abs(); let pc = (p - c as i32).abs();
        if pa <= pb && pa <= pc { a } else if pb <= pc { b } else { c }
    }
    #[kani::proof]
    fn c24_paeth_predictor_png_spec() {
        let (a, b, c): (u8, u8, u8) = (kani::any(), kani::any(), kani::any());
        assert!(paeth_predictor(a, b, c) == paeth_spec(a, b, c));
    }
}
