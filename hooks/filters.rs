// Hook module for parser/filters.rs
#[cfg(kani)]
mod kani_h {
    use super::super::*;
    // PNG specification 9.4, transcribed
    fn paeth_spec(a: u8, b: u8, c: u8) -> u8 {
        let p = a as i32 + b as i32 - c as i32;
        let pa = (p - a as i32).abs();
        let pb = (p - b as i32).abs();
        let pc = (p - c as i32).abs();
        if pa <= pb && pa <= pc {
            a
        } else if pb <= pc {
            b
        } else {
            c
        }
    }
    #[kani::proof]
    fn c07_paeth_predictor_png_spec() {
        let (a, b, c): (u8, u8, u8) = (kani::any(), kani::any(), kani::any());
        assert!(paeth_predictor(a, b, c) == paeth_spec(a, b, c));
    }
    #[kani::proof]
    fn c01_hex_digit_value() {
        let ch: u8 = kani::any();
        let r = hex_digit_value(ch);
        let spec = if ch.is_ascii_digit() {
            Some(ch - b'0')
        } else if (b'A'..=b'F').contains(&ch) {
            Some(ch - b'A' + 10)
        } else if (b'a'..=b'f').contains(&ch) {
            Some(ch - b'a' + 10)
        } else {
            None
        };
        assert!(r == spec);
        if let Some(v) = r {
            assert!(v < 16);
        }
    }
    // ISO 32000-1 7.4.4.2 / TIFF 6.0: LZW codes are packed into bytes most significant bit first. Reference: bit i of the stream is
    // bit (7 - i % 8) of byte i / 8; an n-bit code is the big-endian number made of the next n bits.
    fn bit_at(d: &[u8], p: usize) -> u32 {
        ((d[p / 8] >> (7 - (p % 8) as u8)) & 1) as u32
    }
    // Complete over: every window of 4 data bytes, every start position inside the first two bytes (byte_pos 0..=1, bit_pos 0..=7),
    // every n: u32. read_bits touches at most 3 bytes and addresses them relative to byte_pos (translation argument, stated in DESIGN).
    #[kani::proof]
    #[kani::unwind(18)]
    fn c07_lzw_read_bits() {
        let data: [u8; 4] = kani::any();
        let len: usize = kani::any();
        kani::assume(len <= 4);
        let byte_pos: usize = kani::any();
        let bit_pos: u8 = kani::any();
        kani::assume(byte_pos <= 1 && byte_pos <= len && bit_pos < 8);   // the reader's invariant (wf in the Verus stub)
        let n: u32 = kani::any();
        let mut r = LzwBitReader { data: &data[..len], byte_pos, bit_pos };
        let pos0 = byte_pos * 8 + bit_pos as usize;
        let got = r.read_bits(n);
        kani::cover!(got.is_some() && n == 12 && bit_pos == 5);
        kani::cover!(got.is_none() && n == 9 && len == 2);
        assert!(r.bit_pos < 8);
        match got {
            Some(v) => {
                assert!(n >= 1 && n <= 16);
                assert!(pos0 + n as usize <= 8 * len);
                let mut want = 0u32;
                let mut i = 0usize;
                while i < n as usize {
                    want = (want << 1) | bit_at(&data, pos0 + i);
                    i += 1;
                }
                assert!(v == want);
                assert!(r.byte_pos * 8 + r.bit_pos as usize == pos0 + n as usize);
                assert!(r.byte_pos <= len);
            }
            None => {
                assert!(n == 0 || n > 16 || (pos0 + n as usize > 8 * len && r.byte_pos * 8 + r.bit_pos as usize >= 8 * len));
                assert!(r.byte_pos <= len || n == 0 || n > 16);
            }
        }
    }
}
