// Hook module for parser/filters.rs
#[cfg(kani)]
mod kani_h {
    use super::super::*;
    // PNG specification 9.4, transcribed
    fn paeth_spec(a: u8, b: u8, c: u8) -> u8 {
        let p = a as i32 + b as i32 - c as i32;
        let pa = (p - a as i32).abs();
        let pb = (p - b as i32).abs();
        let pc = (p - c as i32).abs();
        if pa <= pb && pa <= pc {
            a
        } else if pb <= pc {
            b
        } else {
            c
        }
    }
    #[kani::proof]
    fn c07_paeth_predictor_png_spec() {
        let (a, b, c): (u8, u8, u8) = (kani::any(), kani::any(), kani::any());
        assert!(paeth_predictor(a, b, c) == paeth_spec(a, b, c));
    }
    #[kani::proof]
    fn c01_hex_digit_value() {
        let ch: u8 = kani::any();
        let r = hex_digit_value(ch);
        let spec = if ch.is_ascii_digit() {
            Some(ch - b'0')
        } else if (b'A'..=b'F').contains(&ch) {
            Some(ch - b'A' + 10)
        } else if (b'a'..=b'f').contains(&ch) {
            Some(ch - b'a' + 10)
        } else {
            None
        };
        assert!(r == spec);
        if let Some(v) = r {
            assert!(v < 16);
        }
    }
}
