// Hook module for graphics/color.rs
#[cfg(kani)]
mod kani_h {
    use super::super::*;
    #[kani::proof]
    fn c21_finite_or_zero_all_f64() {
        let x: f64 = kani::any();
        let r = finite_or_zero(x);
        assert!(r.is_finite());
        if x.is_finite() { assert!(r.to_bits() == x.to_bits()); } else { assert!(r == 0.0); }
    }
}
