// Hook module for text/cmap.rs
#[cfg(kani)]
mod kani_h {
    use super::super::*;
    fn be(v: &[u8]) -> u64 { let mut r = 0u64; let mut i = 0; while i < v.len() { r = r * 256 + v[i] as u64; i += 1; } r }
    macro_rules! inc_harness { ($name:ident, $n:expr) => {
        #[kani::proof]
        #[kani::unwind(6)]
        fn $name() {
            let mut a: [u8; $n] = kani::any();
            let before = be(&a);
            let ok = increment_be(&mut a);
            let max: u64 = (1u64 << (8 * $n)) - 1;
            if ok { assert!(before < max && be(&a) == before + 1); }
            else { assert!(before == max && be(&a) == 0); }
        }
    }}
    inc_harness!(c26_increment_be_1, 1); inc_harness!(c26_increment_be_2, 2);
    inc_harness!(c26_increment_be_3, 3); inc_harness!(c26_increment_be_4, 4);
    macro_rules! off_harness { ($name:ident, $n:expr) => {
        #[kani::proof]
        #[kani::unwind(6)]
        fn $name() {
            let c: [u8; $n] = kani::any(); let s: [u8; $n] = kani::any();
            let r = calculate_offset(&c, &s);
            assert!(r as u64 == be(&c).saturating_sub(be(&s)));
        }
    }}
    // C01: no overflow panic for codes longer than a usize (complete for the fixed length 9)
    #[kani::proof]
    #[kani::unwind(11)]
    fn c01_calculate_offset_9_bytes_no_panic() {
        let c: [u8; 9] = kani::any(); let s: [u8; 9] = kani::any();
        let r = calculate_offset(&c, &s);
        if c[0] == 0 && s[0] == 0 { assert!(r as u64 == be(&c[1..]).saturating_sub(be(&s[1..]))); }
    }
    off_harness!(c26_calculate_offset_1, 1); off_harness!(c26_calculate_offset_2, 2);
    off_harness!(c26_calculate_offset_3, 3); off_harness!(c26_calculate_offset_4, 4);
    // CodeRange::contains: for codes of the range's own length, slice comparison (lexicographic) is numeric comparison of the
    // big-endian values; codes of another length are never contained. Complete for 1..4-byte codes (symbolic [u8; n]).
    macro_rules! contains_harness { ($name:ident, $n:expr) => {
        #[kani::proof]
        #[kani::unwind(6)]
        fn $name() {
            let s: [u8; $n] = kani::any(); let e: [u8; $n] = kani::any(); let c: [u8; $n] = kani::any();
            let r = CodeRange { start: s.to_vec(), end: e.to_vec() };
            assert!(r.contains(&c) == (be(&s) <= be(&c) && be(&c) <= be(&e)));
            // a shorter or longer code is outside every range of this length
            let longer: [u8; $n + 1] = kani::any();
            assert!(!r.contains(&longer));
            assert!(!r.contains(&c[..$n - 1]));
        }
    }}
    contains_harness!(c26_contains_1, 1); contains_harness!(c26_contains_2, 2); contains_harness!(c26_contains_3, 3); contains_harness!(c26_contains_4, 4);
}
