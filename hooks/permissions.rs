// Hook module for encryption/permissions.rs. ISO 32000-1 Table 22 (1-based bit positions): print 3, modify 4, copy 5,
// annotations 6, fill forms 9, accessibility 10, assemble 11, high-quality print 12.
#[cfg(kani)]
mod kani_h {
    use super::super::*;
    macro_rules! bit_harness {
        ($name:ident, $set:ident, $get:ident, $iso_bit:expr) => {
            #[kani::proof]
            fn $name() {
                let bits: u32 = kani::any();
                let allow: bool = kani::any();
                let mut p = Permissions::from_bits(bits);
                assert!(p.bits() == bits);
                assert!(p.$get() == ((bits >> ($iso_bit - 1)) & 1 == 1));
                p.$set(allow);
                let mask: u32 = 1u32 << ($iso_bit - 1);
                // exactly bit k is set/cleared, the other 31 bits are untouched
                assert!(p.bits() & !mask == bits & !mask);
                assert!((p.bits() & mask != 0) == allow);
                assert!(p.$get() == allow);
                kani::cover!(allow && bits & mask == 0);
            }
        };
    }
    bit_harness!(c05_perm_print, set_print, can_print, 3);
    bit_harness!(c05_perm_modify, set_modify_contents, can_modify_contents, 4);
    bit_harness!(c05_perm_copy, set_copy, can_copy, 5);
    bit_harness!(c05_perm_annot, set_modify_annotations, can_modify_annotations, 6);
    bit_harness!(c05_perm_forms, set_fill_forms, can_fill_forms, 9);
    bit_harness!(c05_perm_access, set_accessibility, can_access_for_accessibility, 10);
    bit_harness!(c05_perm_assemble, set_assemble, can_assemble, 11);
    bit_harness!(c05_perm_hq, set_print_high_quality, can_print_high_quality, 12);

    #[kani::proof]
    fn c05_perm_new_and_flags() {
        let p = Permissions::new();
        // bits 1-2 clear, 7-8 set, 13-32 set, every permission bit clear
        assert!(p.bits() & 0b11 == 0);
        assert!(p.bits() & 0xC0 == 0xC0);
        assert!(p.bits() & 0xFFFF_F000 == 0xFFFF_F000);
        assert!(p.bits() & 0x0F3C == 0);
        let f = PermissionFlags {
            print: kani::any(), modify_contents: kani::any(), copy: kani::any(), modify_annotations: kani::any(),
            fill_forms: kani::any(), accessibility: kani::any(), assemble: kani::any(), print_high_quality: kani::any(),
        };
        let q = Permissions::from_flags(f);
        let g = q.flags();
        assert!(g.print == f.print && g.modify_contents == f.modify_contents && g.copy == f.copy
            && g.modify_annotations == f.modify_annotations && g.fill_forms == f.fill_forms
            && g.accessibility == f.accessibility && g.assemble == f.assemble && g.print_high_quality == f.print_high_quality);
        // reserved bits keep their required values whatever the flags
        assert!(q.bits() & 0b11 == 0 && q.bits() & 0xFFFF_F0C0 == 0xFFFF_F0C0);
        assert!(Permissions::all().bits() == 0xFFFF_FFFC);
    }
}
