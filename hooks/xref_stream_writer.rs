// Hook module for writer/xref_stream_writer.rs (compiled only under cfg(kani))
#[cfg(kani)]
mod kani_h {
    use super::super::*;
    // bytes_needed(v) is the number of base-256 digits of v (1 for 0): complete over all u64, loop-free.
    // This discharges the contract the Verus unit xrefwriter assumes for the same function.
    #[kani::proof]
    fn c03_bytes_needed() {
        let v: u64 = kani::any();
        let r = XRefStreamWriter::bytes_needed(v);
        assert!(r >= 1 && r <= 8);
        // v < 256^r
        assert!(r == 8 || (v >> (8 * r as u32)) == 0);
        // minimal: v >= 256^(r-1)
        assert!(r == 1 || (v >> (8 * (r as u32 - 1))) != 0);
        kani::cover!(r == 8); kani::cover!(r == 1 && v != 0);
    }
}
