// Hook module for operations/rotate.rs
#[cfg(kani)]
mod kani_h {
    use super::super::*;
    fn any_angle() -> RotationAngle {
        match kani::any::<u8>() % 4 { 0 => RotationAngle::None, 1 => RotationAngle::Clockwise90, 2 => RotationAngle::Rotate180, _ => RotationAngle::Clockwise270 }
    }
    // C16: from_degrees accepts exactly the multiples of 90 and normalises them modulo 360 (all i32)
    #[kani::proof]
    fn c16_from_degrees_all_i32() {
        let d: i32 = kani::any();
        let m = d.rem_euclid(360);
        match RotationAngle::from_degrees(d) {
            Ok(r) => assert!(r.to_degrees() == m),
            Err(_) => assert!(m != 0 && m != 90 && m != 180 && m != 270),
        }
    }
    // C16: combine is addition modulo 360; the unreachable!() arm is unreachable
    #[kani::proof]
    fn c16_combine() {
        let a = any_angle(); let b = any_angle();
        let c = a.combine(b);
        assert!(c.to_degrees() == (a.to_degrees() + b.to_degrees()) % 360);
        assert!(RotationAngle::from_degrees(a.to_degrees()).ok() == Some(a));
        kani::cover!(c == RotationAngle::Clockwise270);
    }
}
