use vstd::prelude::*;
use std::collections::HashMap;
use vstd::std_specs::hash::*;
verus! {
#[derive(Clone, Copy)]
struct XRefEntry { offset: u64, generation: u16, in_use: bool }

fn merge_entries(m: &mut HashMap<u32, XRefEntry>, t: &HashMap<u32, XRefEntry>)
    requires obeys_key_model::<u32>(),
    ensures
        forall|k: u32| old(m)@.contains_key(k) ==> final(m)@.contains_key(k) && final(m)@[k] == old(m)@[k],
        forall|k: u32| !old(m)@.contains_key(k) && t@.contains_key(k) ==> final(m)@.contains_key(k) && final(m)@[k] == t@[k],
        forall|k: u32| final(m)@.contains_key(k) ==> old(m)@.contains_key(k) || t@.contains_key(k),
{
    let ghost m0 = m@;
    for (obj_num__r, entry__r) in it: t.iter()
        invariant obeys_key_model::<u32>(),
            forall|k: u32| #[trigger] m0.contains_key(k) ==> m@.contains_key(k) && m@[k] == m0[k],
            forall|k: u32| #[trigger] m@.contains_key(k) ==> m0.contains_key(k) || t@.contains_key(k),
            forall|k: u32| #[trigger] m@.contains_key(k) && !m0.contains_key(k) ==> m@[k] == t@[k],
            // every key already yielded by the iterator is present
            forall|j: int| 0 <= j < it.history@.len() ==> m@.contains_key(*it.history@[j].0),
    { let obj_num = *obj_num__r; let entry = *entry__r;
        let ghost mb = m@;
        m.entry(obj_num).or_insert(entry);
        assert(mb.contains_key(obj_num) ==> m@ == mb);   // x
        assert(!mb.contains_key(obj_num) ==> m@ == mb.insert(obj_num, entry));   // y
    }
    assert(m0 == old(m)@); // a
    assert(forall|k: u32| m0.contains_key(k) ==> m@.contains_key(k) && m@[k] == m0[k]); // b
    assert(forall|k: u32| t@.contains_key(k) ==> m@.contains_key(k)); // c
}
}
fn main(){}
