use vstd::prelude::*;
verus! {
const MAX_DEPTH: usize = 1024;

struct GraphicsStateStack<T> {
    entries: Vec<T>,
    dropped: usize,
}

impl<T> GraphicsStateStack<T> {
    spec fn wf(&self) -> bool {
        &&& self.entries@.len() <= MAX_DEPTH
        &&& (self.dropped > 0 ==> self.entries@.len() == MAX_DEPTH)
    }
    fn push_with(&mut self, capture: impl FnOnce() -> T) 
        requires old(self).wf(), call_requires(capture, ()),
        ensures final(self).wf(),
           old(self).entries@.len() < MAX_DEPTH ==> final(self).dropped == old(self).dropped && final(self).entries@.len() == old(self).entries@.len() + 1
               && final(self).entries@.drop_last() == old(self).entries@ && call_ensures(capture, (), final(self).entries@.last()),
           old(self).entries@.len() >= MAX_DEPTH ==> final(self).entries@ == old(self).entries@ && (final(self).dropped == old(self).dropped + 1 || (old(self).dropped == usize::MAX && final(self).dropped == usize::MAX)),
    {
        if self.entries.len() < MAX_DEPTH {
            self.entries.push(capture());
        } else {
            self.dropped = self.dropped.saturating_add(1);
        }
    }

    fn pop(&mut self) -> (r: Option<T>) 
        requires old(self).wf(),
        ensures final(self).wf(),
          old(self).dropped > 0 ==> r.is_none() && final(self).dropped == old(self).dropped - 1 && final(self).entries@ == old(self).entries@,
          old(self).dropped == 0 && old(self).entries@.len() > 0 ==> r == Some(old(self).entries@.last()) && final(self).entries@ == old(self).entries@.drop_last() && final(self).dropped == 0,
          old(self).dropped == 0 && old(self).entries@.len() == 0 ==> r.is_none() && final(self).entries@.len() == 0 && final(self).dropped == 0,
    {
        if self.dropped > 0 {
            self.dropped -= 1;
            return None;
        }
        self.entries.pop()
    }
}
}
fn main(){}
