use vstd::prelude::*;
verus! {
global size_of usize == 8;

pub assume_specification<T> [<[T]>::swap] (s: &mut [T], a: usize, b: usize)
    requires a < old(s)@.len(), b < old(s)@.len(),
    ensures final(s)@ == old(s)@.update(a as int, old(s)@[b as int]).update(b as int, old(s)@[a as int]);

pub open spec fn swap_seq(s: Seq<u8>, a: int, b: int) -> Seq<u8> { s.update(a, s[b]).update(b, s[a]) }

// ---- RC4 as defined (KSA / PRGA) ----
pub struct St { pub s: Seq<u8>, pub i: int, pub j: int }

pub open spec fn ksa(key: Seq<u8>, n: nat) -> (Seq<u8>, int)
    decreases n
{
    if n == 0 { (Seq::new(256, |k: int| k as u8), 0) }
    else {
        let (s, j) = ksa(key, (n - 1) as nat);
        let i = n - 1;
        let j2 = (j + s[i] as int + key[i % key.len() as int] as int) % 256;
        (swap_seq(s, i, j2), j2)
    }
}
pub open spec fn step(st: St) -> St {
    let i = (st.i + 1) % 256;
    let j = (st.j + st.s[i] as int) % 256;
    St { s: swap_seq(st.s, i, j), i, j }
}
pub open spec fn after(st: St, n: nat) -> St decreases n {
    if n == 0 { st } else { step(after(st, (n - 1) as nat)) }
}
// keystream byte produced by the n-th step (n >= 1)
pub open spec fn ks(st: St, n: nat) -> u8 {
    let a = after(st, n);
    a.s[(a.s[a.i] as int + a.s[a.j] as int) % 256]
}

struct Rc4Key { key: Vec<u8> }
struct Rc4 { s: [u8; 256], i: usize, j: usize }

impl Rc4 {
    spec fn st(&self) -> St { St { s: self.s@, i: self.i as int, j: self.j as int } }
    spec fn wf(&self) -> bool { self.i < 256 && self.j < 256 }

    fn new(key: &Rc4Key) -> (r: Self)
        requires key.key@.len() > 0,
        ensures r.wf(), r.st() == (St { s: ksa(key.key@, 256).0, i: 0, j: 0 }),
    {
        let mut s = [0u8; 256];

        // Initialize state array
        let mut i__0: usize = 0;
        while i__0 < s.len()
            invariant s@.len() == 256, i__0 <= 256, forall|k: int| 0 <= k < i__0 ==> s@[k] == k as u8,
            decreases 256 - i__0
        {
            let i = i__0;
            s[i] = #[verifier::truncate] (i as u8);
            i__0 += 1;
        }
        proof { assert(s@ =~= ksa(key.key@, 0).0); }

        // Key scheduling algorithm (KSA)
        let mut j = 0usize;
        for i in 0..256
            invariant j < 256, s@.len() == 256, key.key@.len() > 0, (s@, j as int) == ksa(key.key@, i as nat),
        {
            j = (j + s[i] as usize + key.key[i % key.key.len()] as usize) % 256;
            s.swap(i, j);
        }

        Self { s, i: 0, j: 0 }
    }

    fn process(&mut self, data: &[u8]) -> (output: Vec<u8>)
        requires old(self).wf(),
        ensures final(self).wf(), output@.len() == data@.len(),
            final(self).st() == after(old(self).st(), data@.len() as nat),
            forall|k: int| 0 <= k < data@.len() ==> output@[k] == data@[k] ^ ks(old(self).st(), (k + 1) as nat),
    {
        let mut output = Vec::with_capacity(data.len());

        for byte__r in it: data.iter()
            invariant self.wf(), output@.len() == it.index@,
                self.st() == after(old(self).st(), it.index@ as nat),
                forall|k: int| 0 <= k < it.index@ ==> output@[k] == data@[k] ^ ks(old(self).st(), (k + 1) as nat),
        { let byte = *byte__r;
            // Pseudo-random generation algorithm (PRGA)
            self.i = (self.i + 1) % 256;
            self.j = (self.j + self.s[self.i] as usize) % 256;
            self.s.swap(self.i, self.j);

            let k = self.s[(self.s[self.i] as usize + self.s[self.j] as usize) % 256];
            output.push(byte ^ k);
        }

        output
    }
}

proof fn lemma_xor_involution(a: u8, k: u8) ensures (a ^ k) ^ k == a { assert((a ^ k) ^ k == a) by (bit_vector); }
}
fn main(){}
