use vstd::prelude::*;
use std::collections::HashMap;
use vstd::std_specs::hash::*;
verus! {
global size_of usize == 8;
const COMPOSITE_ARG_1_AND_2_ARE_WORDS: u16 = 0x0001;
const COMPOSITE_WE_HAVE_A_SCALE: u16 = 0x0008;
const COMPOSITE_MORE_COMPONENTS: u16 = 0x0020;
const COMPOSITE_WE_HAVE_AN_X_AND_Y_SCALE: u16 = 0x0040;
const COMPOSITE_WE_HAVE_A_TWO_BY_TWO: u16 = 0x0080;

pub assume_specification<T: Clone> [<[T]>::to_vec] (s: &[T]) -> (r: Vec<T>)
    ensures r@ == s@;
pub assume_specification<'a, T: Copy> [std::option::Option::<&T>::copied] (o: std::option::Option<&'a T>) -> (r: std::option::Option<T>)
    ensures r == (match o { Some(x) => Some(*x), None => None });

#[verifier::external_body]
fn be_u16(a: u8, b: u8) -> (r: u16) ensures r as int == a as int * 256 + b as int { u16::from_be_bytes([a, b]) }
#[verifier::external_body]
fn be_i16(a: u8, b: u8) -> (r: i16) ensures (r >= 0) == (a < 128) { i16::from_be_bytes([a, b]) }

// is position p inside the glyphIndex field of some component record reached by the walk starting at `cursor`?
// (spec of the walk itself is left for pass B; this probe checks the frame shape only)

fn remap_composite_glyph(glyph_data: &[u8], glyph_map: &HashMap<u16, u16>) -> (result: Vec<u8>)
    requires obeys_key_model::<u16>(), glyph_data@.len() <= 0x7fff_ffff_ffff_ffff,
    ensures result@.len() == glyph_data@.len(),
        // header (numberOfContours + bbox) is never touched
        forall|k: int| 0 <= k < 10 && k < glyph_data@.len() ==> result@[k] == glyph_data@[k],
{
    if glyph_data.len() < 12 {
        return glyph_data.to_vec();
    }

    let num_contours = be_i16(glyph_data[0], glyph_data[1]);
    if num_contours >= 0 {
        return glyph_data.to_vec();
    }

    let mut result = glyph_data.to_vec();
    let mut cursor = 10;

    loop 
        invariant 10 <= cursor, result@.len() == glyph_data@.len(), glyph_data@.len() <= 0x7fff_ffff_ffff_ffff,
            cursor <= glyph_data@.len() + 16,
            forall|k: int| 0 <= k < 10 ==> result@[k] == glyph_data@[k],
            obeys_key_model::<u16>(),
        decreases glyph_data@.len() + 16 - cursor
    {
        if cursor + 4 > result.len() {
            break;
        }

        let flags = be_u16(result[cursor], result[cursor + 1]);
        let old_gid = be_u16(result[cursor + 2], result[cursor + 3]);
        let new_gid = glyph_map.get(&old_gid).copied().unwrap_or(0);
        result[cursor + 2] = #[verifier::truncate] ((new_gid >> 8) as u8);
        result[cursor + 3] = #[verifier::truncate] ((new_gid & 0xFF) as u8);

        cursor += 4;

        if flags & COMPOSITE_ARG_1_AND_2_ARE_WORDS != 0 {
            cursor += 4;
        } else {
            cursor += 2;
        }

        if flags & COMPOSITE_WE_HAVE_A_TWO_BY_TWO != 0 {
            cursor += 8;
        } else if flags & COMPOSITE_WE_HAVE_AN_X_AND_Y_SCALE != 0 {
            cursor += 4;
        } else if flags & COMPOSITE_WE_HAVE_A_SCALE != 0 {
            cursor += 2;
        }

        if flags & COMPOSITE_MORE_COMPONENTS == 0 {
            break;
        }
    }

    result
}
}
fn main(){}
