use vstd::prelude::*;
verus! {
global size_of usize == 8;
pub enum ParseError { StreamDecodeError(String), Other }
pub type ParseResult<T> = Result<T, ParseError>;
#[verifier::external_body]
fn mk_err() -> ParseError { ParseError::Other }

pub open spec fn rl_decode(d: Seq<u8>, i: int) -> Option<Seq<u8>>
    decreases d.len() - i
{
    if i < 0 || i >= d.len() { Some(Seq::empty()) }
    else {
        let l = d[i];
        if l == 128 { Some(Seq::empty()) }
        else if l < 128 {
            let count = l as int + 1;
            if i + 1 + count > d.len() { None }
            else {
                match rl_decode(d, i + 1 + count) {
                    Some(rest) => Some(d.subrange(i + 1, i + 1 + count) + rest),
                    None => None,
                }
            }
        } else {
            if i + 1 >= d.len() { None }
            else {
                let count = 257 - l as int;
                match rl_decode(d, i + 2) {
                    Some(rest) => Some(Seq::new(count as nat, |k: int| d[i + 1]) + rest),
                    None => None,
                }
            }
        }
    }
}

// "everything decoded so far, followed by whatever the rest decodes to, is the answer"
pub open spec fn inv(d: Seq<u8>, i: int, acc: Seq<u8>) -> bool {
    match rl_decode(d, i) {
        Some(rest) => rl_decode(d, 0) == Some(acc + rest),
        None => rl_decode(d, 0).is_none(),
    }
}

spec fn as_i8(b: u8) -> i8 { #[verifier::truncate] (b as i8) }
proof fn lemma_i8(b: u8)
    ensures as_i8(b) as int == (if b < 128 { b as int } else { b as int - 256 })
{
    assert(#[verifier::truncate] (b as i8) as int == (if b < 128u8 { b as int } else { b as int - 256 })) by (bit_vector);
}

fn decode_run_length_with_limit(data: &[u8], max_bytes: usize) -> (r: ParseResult<Vec<u8>>)
    requires data@.len() <= 0x7fff_ffff_ffff_ffff,
    ensures match r {
        Ok(v) => v@.len() <= max_bytes && rl_decode(data@, 0) == Some(v@),
        Err(_) => rl_decode(data@, 0).is_none() || rl_decode(data@, 0).unwrap().len() > max_bytes,
    }
{
    let mut result = Vec::new();
    let mut i = 0;
    proof { assert(Seq::<u8>::empty() + rl_decode(data@, 0).unwrap() =~= rl_decode(data@, 0).unwrap()); }

    while i < data.len()
        invariant_except_break i <= data@.len(), inv(data@, i as int, result@),
        invariant result@.len() <= max_bytes, data@.len() <= 0x7fff_ffff_ffff_ffff,
        ensures rl_decode(data@, 0) == Some(result@),
        decreases data@.len() - i
    {
        let ghost i0 = i as int;
        let ghost res0 = result@;
        proof { lemma_i8(data@[i0]); }
        let length = #[verifier::truncate] (data[i] as i8);
        i += 1;

        if length == -128 {
            // EOD marker
            proof { assert(res0 + Seq::<u8>::empty() =~= res0); }
            break;
        } else if length >= 0 {
            // Copy next length+1 bytes literally
            let count = (length as usize) + 1;
            proof { assert(count <= 128); assert(i <= data@.len()); }
            if i + count > data.len() {
                return Err(mk_err());
            }
            result.extend_from_slice(&data[i..i + count]);
            i += count;
            proof {
                let lit = data@.subrange(i0 + 1, i0 + 1 + count as int);
                assert(result@ =~= res0 + lit);
                match rl_decode(data@, i as int) {
                    Some(rest) => { assert(res0 + (lit + rest) =~= (res0 + lit) + rest); }
                    None => {}
                }
            }
        } else {
            // Repeat next byte (-length)+1 times
            if i >= data.len() {
                return Err(mk_err());
            }
            let repeat_byte = data[i];
            let count = ((-length) as usize) + 1;
            for _k in 0..count
                invariant result@ == res0 + Seq::new(_k as nat, |k: int| repeat_byte),
            {
                result.push(repeat_byte);
                proof { assert(res0 + Seq::new((_k + 1) as nat, |k: int| repeat_byte) =~= (res0 + Seq::new(_k as nat, |k: int| repeat_byte)).push(repeat_byte)); }
            }
            i += 1;
            proof {
                let rep = Seq::new(count as nat, |k: int| data@[i0 + 1]);
                assert(rep =~= Seq::new(count as nat, |k: int| repeat_byte));
                match rl_decode(data@, i as int) {
                    Some(rest) => { assert(res0 + (rep + rest) =~= (res0 + rep) + rest); }
                    None => {}
                }
            }
        }

        // Decompression bomb check
        if result.len() > max_bytes {
            proof {
                // the full decoding, if defined, has result@ as a prefix, hence is longer than max_bytes
                match rl_decode(data@, i as int) { Some(rest) => { assert((result@ + rest).len() >= result@.len()); } None => {} }
            }
            return Err(mk_err());
        }
    }
    proof {
        if i >= data@.len() { assert(result@ + Seq::<u8>::empty() =~= result@); }
    }
    Ok(result)
}
}
fn main(){}
