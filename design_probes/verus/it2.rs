use vstd::prelude::*;
use std::collections::HashMap;
use vstd::std_specs::hash::*;
use vstd::std_specs::iter::IteratorSpec;
verus! {
fn t(t: &HashMap<u32, u64>)
    requires obeys_key_model::<u32>(),
{
    let it0 = t.iter();
    proof {
        let r = it0.remaining();
        assert(r.no_duplicates());   // 1
        assert(r.len() == t@.len()); // 2
        assert(forall|i: int| 0 <= i < r.len() ==> t@.contains_key(*(#[trigger] r[i]).0) && t@[*r[i].0] == *r[i].1); // 3
        assert(r.map_values(|p: (&u32, &u64)| (*p.0, *p.1)).to_set() == t@.kv_pairs()); // 4
        assert(forall|k: u32| t@.contains_key(k) ==> exists|i: int| 0 <= i < r.len() && *(#[trigger] r[i]).0 == k); // 5
    }
}
}
fn main(){}
