use vstd::prelude::*;
use std::collections::VecDeque;
use vstd::std_specs::vecdeque::*;
verus! {
fn t2<K: Clone>(v: &mut VecDeque<K>, k: &K) 
  requires forall|a: K, b: K| #[trigger] call_ensures(K::clone, (&a,), b) ==> a == b
{
    v.push_front(k.clone());
    assert(v@ =~= seq![*k] + old(v)@);   // 3
}
}
fn main(){}
