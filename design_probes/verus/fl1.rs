use vstd::prelude::*;
use std::collections::HashSet;
use vstd::std_specs::hash::*;
verus! {
const MAX_PAGES: usize = 100000;

#[verifier::external_body]
fn kids_of(r: (u32, u16)) -> (v: Vec<(u32, u16)>) { unimplemented!() }
#[verifier::external_body]
fn kind_of(r: (u32, u16)) -> (k: u8) { unimplemented!() }

fn flatten(seed: Vec<(u32,u16)>) -> (page_refs: Vec<(u32, u16)>)
    requires obeys_key_model::<(u32,u16)>(),
    ensures page_refs@.len() <= MAX_PAGES
{
    let mut page_refs: Vec<(u32, u16)> = Vec::new();
    let mut visited: HashSet<(u32, u16)> = HashSet::new();
    let mut stack: Vec<(u32, u16)> = seed;

    while let Some(obj_ref) = stack.pop() 
        invariant page_refs@.len() <= MAX_PAGES,
        decreases 0int
    {
        if page_refs.len() >= MAX_PAGES {
            break;
        }
        if !visited.insert(obj_ref) {
            continue;
        }
        let k = kind_of(obj_ref);
        if k == 0 {
            page_refs.push(obj_ref);
        } else if k == 1 {
            let kids = kids_of(obj_ref);
            let mut i = kids.len();
            while i > 0 
                invariant i <= kids@.len(), page_refs@.len() <= MAX_PAGES,
                decreases i
            { i -= 1; stack.push(kids[i]); }
        }
    }
    page_refs
}
}
fn main(){}
