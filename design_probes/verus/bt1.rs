use vstd::prelude::*;
use std::collections::BTreeMap;
use vstd::std_specs::btree::*;
verus! {
struct PageLabel { start: u32 }
struct PageLabelTree { ranges: BTreeMap<u32, PageLabel> }
impl PageLabelTree {
    fn get_label(&self, page_index: u32) -> Option<u32> {
        // Find the applicable range
        let mut applicable_range = None;
        let mut range_start = 0;

        for (start__r, label) in &self.ranges { let start = *start__r;
            if start <= page_index {
                applicable_range = Some(label);
                range_start = start;
            } else {
                break;
            }
        }
        match applicable_range { Some(l) => Some(page_index - range_start), None => None }
    }
}
}
fn main(){}
