use vstd::prelude::*;
verus! {
// R6 stubs: uninterpreted formatting functions of their arguments
pub uninterp spec fn fmt_0_spec(a: u32, b: usize) -> Seq<u8>;
#[verifier::external_body]
fn fmt_0(a: u32, b: usize) -> (r: String) ensures r@.len() >= 0 { unimplemented!() }
#[verifier::external_body]
fn fmt_1(a: u64, b: u16) -> (r: String) { unimplemented!() }
#[verifier::external_body]
fn lit_xref() -> (r: Vec<u8>) { unimplemented!() }

pub assume_specification [std::string::String::as_bytes] (s: &String) -> (r: &[u8]);

fn partial_xref(changed: &[(u32, u16, u64)]) -> (out: Vec<u8>) 
    requires forall|k: int| 0 <= k < changed@.len() ==> changed@[k].0 < u32::MAX,
             changed@.len() < usize::MAX,
{
    let mut out = lit_xref();
    let mut index = 0;
    while index < changed.len() 
        invariant index <= changed@.len(),
          forall|k: int| 0 <= k < changed@.len() ==> changed@[k].0 < u32::MAX,
          changed@.len() < usize::MAX,
        decreases changed@.len() - index
    {
        let start = changed[index].0;
        let mut end = index;
        while end + 1 < changed.len() && changed[end + 1].0 == changed[end].0 + 1 
            invariant index <= end < changed@.len(),
              forall|k: int| 0 <= k < changed@.len() ==> changed@[k].0 < u32::MAX,
              changed@.len() < usize::MAX,
            decreases changed@.len() - end
        {
            end += 1;
        }
        out.extend_from_slice(fmt_0(start, end - index + 1).as_bytes());
        let mut k__0 = index;
        while k__0 <= end 
            invariant index <= k__0 <= end + 1, end < changed@.len(),
            decreases end + 1 - k__0
        {
            let generation = &changed[k__0].1; let offset = &changed[k__0].2;
            out.extend_from_slice(fmt_1(*offset, *generation).as_bytes());
            k__0 += 1;
        }
        index = end + 1;
    }
    out
}
}
fn main(){}
