use vstd::prelude::*;
use std::collections::HashMap;
use vstd::std_specs::hash::*;
verus! {
fn t(m: &mut HashMap<u32, u64>, k: u32, v: u64)
    requires obeys_key_model::<u32>(),
{
    m.entry(k).or_insert(v);
    assert(m@.contains_key(k));                                        // 1
    assert(old(m)@.contains_key(k) ==> m@ == old(m)@);                 // 2
    assert(!old(m)@.contains_key(k) ==> m@ == old(m)@.insert(k, v));   // 3
}
}
fn main(){}
