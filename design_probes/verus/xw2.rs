use vstd::prelude::*;
verus! {
global size_of usize == 8;

spec fn pow256(w: nat) -> nat decreases w { if w == 0 { 1 } else { 256 * pow256((w - 1) as nat) } }
// big-endian value of a byte sequence
spec fn be_val(s: Seq<u8>) -> nat decreases s.len() {
    if s.len() == 0 { 0 } else { be_val(s.drop_last()) * 256 + s.last() as nat }
}
// byte k (0 = most significant) of the w-byte big-endian encoding of v
spec fn be_byte(v: u64, w: nat, k: nat) -> u8 { ((v >> (((w - 1 - k) * 8) as u64)) & 0xFF) as u8 }

proof fn lemma_shift(v: u64, i: u64)
    requires i < 8,
    ensures ((v >> (i * 8)) & 0xFF) as nat == (v as nat / pow256(i as nat)) % 256,
{
    assert(pow256(0) == 1);
    assert(pow256(1) == 256) by { reveal_with_fuel(pow256, 3); }
    assert(pow256(2) == 0x1_0000) by { reveal_with_fuel(pow256, 4); }
    assert(pow256(3) == 0x100_0000) by { reveal_with_fuel(pow256, 5); }
    assert(pow256(4) == 0x1_0000_0000) by { reveal_with_fuel(pow256, 6); }
    assert(pow256(5) == 0x100_0000_0000) by { reveal_with_fuel(pow256, 7); }
    assert(pow256(6) == 0x1_0000_0000_0000) by { reveal_with_fuel(pow256, 8); }
    assert(pow256(7) == 0x100_0000_0000_0000) by { reveal_with_fuel(pow256, 9); }
    if i == 0 { assert((v >> 0u64) & 0xFF == v % 256) by (bit_vector); }
    else if i == 1 { assert((v >> 8u64) & 0xFF == (v / 0x100) % 256) by (bit_vector); }
    else if i == 2 { assert((v >> 16u64) & 0xFF == (v / 0x1_0000) % 256) by (bit_vector); }
    else if i == 3 { assert((v >> 24u64) & 0xFF == (v / 0x100_0000) % 256) by (bit_vector); }
    else if i == 4 { assert((v >> 32u64) & 0xFF == (v / 0x1_0000_0000) % 256) by (bit_vector); }
    else if i == 5 { assert((v >> 40u64) & 0xFF == (v / 0x100_0000_0000) % 256) by (bit_vector); }
    else if i == 6 { assert((v >> 48u64) & 0xFF == (v / 0x1_0000_0000_0000) % 256) by (bit_vector); }
    else { assert((v >> 56u64) & 0xFF == (v / 0x100_0000_0000_0000) % 256) by (bit_vector); }
}

    fn write_field(data: &mut Vec<u8>, value: u64, width: usize) 
        requires width <= 8,
        ensures final(data)@.len() == old(data)@.len() + width,
           final(data)@.subrange(0, old(data)@.len() as int) == old(data)@,
           forall|k: int| 0 <= k < width ==> #[trigger] final(data)@[old(data)@.len() + k] as nat == (value as nat / pow256((width - 1 - k) as nat)) % 256,
    {
        let mut i__0 = width;
        while i__0 > 0 
            invariant i__0 <= width, width <= 8, data@.len() == old(data)@.len() + (width - i__0),
              data@.subrange(0, old(data)@.len() as int) == old(data)@,
              forall|k: int| 0 <= k < width - i__0 ==> #[trigger] data@[old(data)@.len() + k] as nat == (value as nat / pow256((width - 1 - k) as nat)) % 256,
            decreases i__0
        {
            i__0 -= 1; let i = i__0;
            proof { lemma_shift(value, i as u64); }
            data.push(#[verifier::truncate] (((value >> (i * 8)) & 0xFF) as u8));
        }
    }
}
fn main(){}
