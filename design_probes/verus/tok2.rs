use vstd::prelude::*;
verus! {
spec fn nib_ok(n: Option<u8>) -> bool { match n { Some(v) => v < 16, None => true } }
pub enum ParseError { SyntaxError { position: usize, message: String }, Other }
pub type ParseResult<T> = Result<T, ParseError>;
pub enum Token { String(Vec<u8>), HexString(Vec<u8>), Other }
pub struct ContentTokenizer<'a> {
    input: &'a [u8],
    position: usize,
    in_inline_image: bool,
}
impl<'a> ContentTokenizer<'a> {

    fn skip_whitespace(&mut self) {
        while self.position < self.input.len() 
invariant self.position <= self.input.len(), self.input == old(self).input, decreases self.input.len() - self.position
{
            match self.input[self.position] {
                b' ' | b'\t' | b'\r' | b'\n' | b'\x0C' => self.position += 1,
                b'%' => self.skip_comment(),
                _ => break,
            }
        }
    }


    fn skip_comment(&mut self) {
        while self.position < self.input.len() && self.input[self.position] != b'\n' 
invariant self.position <= self.input.len(), self.input == old(self).input, decreases self.input.len() - self.position
{
            self.position += 1;
        }
    }


    fn peek_next(&self) -> Option<u8> {
        if self.position + 1 < self.input.len() {
            Some(self.input[self.position + 1])
        } else {
            None
        }
    }


    fn read_octal_escape(&mut self) -> ParseResult<u8> {
        // Use u16 to avoid overflow panic on malformed octal sequences (e.g. \777).
        // Per ISO 32000-1:2008 §7.3.4.2: "high-order overflow shall be ignored".
        let mut value = 0u16;
        let mut count = 0;

        while count < 3 && self.position < self.input.len() 
invariant self.position <= self.input.len(), self.input == old(self).input, count <= 3, value < 512, (count == 0 ==> value == 0), (count == 1 ==> value < 8), (count==2 ==> value < 64), decreases 3 - count
{
            match self.input[self.position] {
                b'0'..=b'7' => {
                    value = value * 8 + u16::from(self.input[self.position] - b'0');
                    self.position += 1;
                    count += 1;
                }
                _ => break,
            }
        }

        Ok(value as u8)
    }


    fn read_literal_string(&mut self) -> ParseResult<Option<Token>> {
        self.position += 1; // Skip opening '('
        let mut result = Vec::new();
        let mut paren_depth = 1;
        let mut escape = false;

        while self.position < self.input.len() && paren_depth > 0 
invariant self.position <= self.input.len(), self.input == old(self).input, paren_depth >= 0, paren_depth <= self.position, decreases self.input.len() - self.position
{
            let ch = self.input[self.position];
            self.position += 1;

            if escape {
                match ch {
                    b'n' => result.push(b'\n'),
                    b'r' => result.push(b'\r'),
                    b't' => result.push(b'\t'),
                    b'b' => result.push(b'\x08'),
                    b'f' => result.push(b'\x0C'),
                    b'(' => result.push(b'('),
                    b')' => result.push(b')'),
                    b'\\' => result.push(b'\\'),
                    b'0'..=b'7' => {
                        // Octal escape sequence
                        self.position -= 1;
                        let octal_value = self.read_octal_escape()?;
                        result.push(octal_value);
                    }
                    _ => result.push(ch), // Unknown escape, treat as literal
                }
                escape = false;
            } else {
                match ch {
                    b'\\' => escape = true,
                    b'(' => {
                        paren_depth += 1;
                        result.push(ch);
                    }
                    b')' => {
                        paren_depth -= 1;
                        if paren_depth > 0 {
                            result.push(ch);
                        }
                    }
                    _ => result.push(ch),
                }
            }
        }

        Ok(Some(Token::String(result)))
    }


    fn read_hex_string(&mut self) -> ParseResult<Option<Token>> {
        self.position += 1; // Skip opening '<'
        let mut result = Vec::new();
        let mut nibble = None;

        while self.position < self.input.len() 
invariant self.position <= self.input.len(), self.input == old(self).input, nib_ok(nibble), decreases self.input.len() - self.position
{
            let ch = self.input[self.position];

            match ch {
                b'>' => {
                    self.position += 1;
                    // Handle odd number of hex digits
                    if let Some(n) = nibble {
                        result.push(n << 4);
                    }
                    return Ok(Some(Token::HexString(result)));
                }
                b'0'..=b'9' | b'A'..=b'F' | b'a'..=b'f' => {
                    let digit = if ch <= b'9' {
                        ch - b'0'
                    } else if ch <= b'F' {
                        ch - b'A' + 10
                    } else {
                        ch - b'a' + 10
                    };

                    if let Some(n) = nibble {
                        result.push((n << 4) | digit);
                        nibble = None;
                    } else {
                        nibble = Some(digit);
                    }
                    self.position += 1;
                }
                b' ' | b'\t' | b'\r' | b'\n' | b'\x0C' => {
                    // Skip whitespace in hex strings
                    self.position += 1;
                }
                _ => {
                    return Err(ParseError::SyntaxError {
                        position: self.position,
                        message: format!("Invalid character in hex string: {:?}", ch as char),
                    });
                }
            }
        }

        Err(ParseError::SyntaxError {
            position: self.position,
            message: "Unterminated hex string".to_string(),
        })
    }
}
}
fn main(){}
