use vstd::prelude::*;
verus! {

pub assume_specification<T> [<[T]>::swap] (s: &mut [T], a: usize, b: usize)
    requires a < old(s)@.len(), b < old(s)@.len(),
    ensures final(s)@ == old(s)@.update(a as int, old(s)@[b as int]).update(b as int, old(s)@[a as int]);

struct Rc4Key {
    key: Vec<u8>,
}
struct Rc4 {
    s: [u8; 256],
    i: usize,
    j: usize,
}

impl Rc4 {
    fn new(key: &Rc4Key) -> Self 
        requires key.key@.len() > 0
    {
        let mut s = [0u8; 256];

        // Initialize state array
        let mut i__0: usize = 0;
        while i__0 < s.len()
            invariant s@.len() == 256, i__0 <= 256,
            decreases 256 - i__0
        {
            let i = i__0;
            s[i] = i as u8;
            i__0 += 1;
        }

        // Key scheduling algorithm (KSA)
        let mut j = 0usize;
        for i in 0..256 
            invariant j < 256, s@.len() == 256, key.key@.len() > 0
        {
            j = (j + s[i] as usize + key.key[i % key.key.len()] as usize) % 256;
            s.swap(i, j);
        }

        Self { s, i: 0, j: 0 }
    }

    fn process(&mut self, data: &[u8]) -> (output: Vec<u8>)
        requires old(self).i < 256, old(self).j < 256,
        ensures output@.len() == data@.len(), final(self).i < 256, final(self).j < 256
    {
        let mut output = Vec::with_capacity(data.len());

        for byte__r in it: data.iter() 
            invariant self.i < 256, self.j < 256, output@.len() == it.index@
        { let byte = *byte__r;
            // Pseudo-random generation algorithm (PRGA)
            self.i = (self.i + 1) % 256;
            self.j = (self.j + self.s[self.i] as usize) % 256;
            self.s.swap(self.i, self.j);

            let k = self.s[(self.s[self.i] as usize + self.s[self.j] as usize) % 256];
            output.push(byte ^ k);
        }

        output
    }
}
}
fn main(){}
