use vstd::prelude::*;
verus! {

// ---------- writer side: ISO 7.3.4.2 minimal escaping ----------
pub open spec fn esc1(b: u8) -> Seq<u8> {
    if b == 0x5Cu8 { seq![0x5Cu8, 0x5Cu8] }
    else if b == 0x28u8 { seq![0x5Cu8, 0x28u8] }
    else if b == 0x29u8 { seq![0x5Cu8, 0x29u8] }
    else { seq![b] }
}
pub open spec fn esc(s: Seq<u8>) -> Seq<u8> decreases s.len() {
    if s.len() == 0 { Seq::empty() } else { esc1(s[0]) + esc(s.subrange(1, s.len() as int)) }
}

// ---------- reader side: library reading of a literal string body ----------
pub open spec fn is_oct(b: u8) -> bool { 0x30 <= b <= 0x37 }
pub open spec fn simple_escape(e: u8) -> u8 {
    if e == 0x6Eu8 { 0x0Au8 } else if e == 0x72u8 { 0x0Du8 } else if e == 0x74u8 { 0x09u8 }
    else if e == 0x62u8 { 0x08u8 } else if e == 0x66u8 { 0x0Cu8 } else { e }
}
// returns (content, index after the closing paren)
pub open spec fn lit_dec(t: Seq<u8>, i: int, depth: int, acc: Seq<u8>) -> (Seq<u8>, int)
    decreases t.len() - i
{
    if i < 0 || i >= t.len() || depth <= 0 { (acc, i) }
    else {
        let ch = t[i];
        if ch == 0x5Cu8 {
            if i + 1 >= t.len() { (acc, i + 1) }
            else {
                let e = t[i + 1];
                if is_oct(e) {
                    // up to three octal digits, high-order overflow ignored
                    let v1 = (e - 0x30u8) as int;
                    if i + 2 < t.len() && is_oct(t[i + 2]) {
                        let v2 = v1 * 8 + (t[i + 2] - 0x30u8) as int;
                        if i + 3 < t.len() && is_oct(t[i + 3]) {
                            let v3 = v2 * 8 + (t[i + 3] - 0x30u8) as int;
                            lit_dec(t, i + 4, depth, acc.push((v3 % 256) as u8))
                        } else { lit_dec(t, i + 3, depth, acc.push((v2 % 256) as u8)) }
                    } else { lit_dec(t, i + 2, depth, acc.push((v1 % 256) as u8)) }
                } else {
                    lit_dec(t, i + 2, depth, acc.push(simple_escape(e)))
                }
            }
        } else if ch == 0x28u8 {
            lit_dec(t, i + 1, depth + 1, acc.push(ch))
        } else if ch == 0x29u8 {
            if depth - 1 > 0 { lit_dec(t, i + 1, depth - 1, acc.push(ch)) } else { (acc, i + 1) }
        } else {
            lit_dec(t, i + 1, depth, acc.push(ch))
        }
    }
}

// ---------- the inverse lemma ----------
pub proof fn lemma_roundtrip(s: Seq<u8>, pre: Seq<u8>, rest: Seq<u8>, acc: Seq<u8>)
    ensures
        lit_dec(pre + esc(s) + seq![0x29u8] + rest, pre.len() as int, 1, acc)
            == (acc + s, (pre.len() + esc(s).len() + 1) as int),
    decreases s.len()
{
    let t = pre + esc(s) + seq![0x29u8] + rest;
    let i = pre.len() as int;
    if s.len() == 0 {
        assert(esc(s) =~= Seq::<u8>::empty());
        assert(t[i] == 0x29u8);
        assert(acc + s =~= acc);
    } else {
        let b = s[0];
        let tail = s.subrange(1, s.len() as int);
        let pre2 = pre + esc1(b);
        assert(esc(s) == esc1(b) + esc(tail));
        assert(t =~= pre2 + esc(tail) + seq![0x29u8] + rest);
        lemma_roundtrip(tail, pre2, rest, acc.push(b));
        assert(acc.push(b) + tail =~= acc + s);
        assert(esc(s).len() == esc1(b).len() + esc(tail).len());
        if b == 0x5Cu8 || b == 0x28u8 || b == 0x29u8 {
            assert(t[i] == 0x5Cu8);
            assert(t[i + 1] == b);
            assert(!is_oct(b));
            assert(simple_escape(b) == b);
        } else {
            assert(t[i] == b);
        }
    }
}
}
fn main(){}
