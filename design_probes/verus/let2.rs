use vstd::prelude::*;
verus! {
global size_of usize == 8;
pub assume_specification [std::string::String::insert] (s: &mut std::string::String, idx: usize, c: char)
    requires idx == 0,
    ensures final(s)@ == seq![c] + old(s)@;

// ISO 32000-1 12.4.2: A..Z, then AA..ZZ, then AAA..ZZZ, ...
spec fn iso_letter(n: nat, upper: bool) -> char {
    (((if upper { 65int } else { 97int }) + ((n - 1) % 26)) as u8) as char
}
spec fn iso_letters(n: nat, upper: bool) -> Seq<char> {
    if n == 0 { Seq::empty() } else { Seq::new(((n - 1) / 26 + 1) as nat, |i: int| iso_letter(n, upper)) }
}
// what the code computes: bijective base-26
spec fn bij26(n: nat, upper: bool) -> Seq<char> decreases n {
    if n == 0 { Seq::empty() } else { bij26(((n - 1) / 26) as nat, upper).push(iso_letter(n, upper)) }
}

fn to_letters(num: u32, uppercase: bool) -> (r: String)
    ensures
        num == 0 ==> r@ == Seq::<char>::empty(),                       // L0
        1 <= num <= 26 ==> r@ == iso_letters(num as nat, uppercase),    // L1
        // num > 26 ==> r@ == iso_letters(num as nat, uppercase),      // L2 (the ISO clause; expected to fail)
        r@ == bij26(num as nat, uppercase),                             // characterisation, for the probe only
{
    if num == 0 {
        return String::new();
    }

    let mut result = String::new();
    let mut n = num;

    while n > 0
        invariant bij26(n as nat, uppercase) + result@ == bij26(num as nat, uppercase),
        decreases n
    {
        let remainder = #[verifier::truncate] (((n - 1) % 26) as u8);
        let letter = if uppercase {
            (b'A' + remainder) as char
        } else {
            (b'a' + remainder) as char
        };
        proof {
            assert(letter == iso_letter(n as nat, uppercase));
            let hd = bij26(((n - 1) / 26) as nat, uppercase);
            assert(hd.push(letter) + result@ =~= hd + (seq![letter] + result@));
        }
        result.insert(0, letter);
        n = (n - 1) / 26;
    }
    proof {
        assert(Seq::<char>::empty() + result@ =~= result@);
        if 1 <= num <= 26 {
            assert(bij26(0, uppercase) =~= Seq::<char>::empty());
            assert(bij26(num as nat, uppercase) =~= iso_letters(num as nat, uppercase));
        }
    }
    result
}
}
fn main(){}
