use vstd::prelude::*;
verus! {
pub assume_specification [usize::div_ceil] (a: usize, b: usize) -> (r: usize)
    requires b != 0,
    ensures r as int == (if a % b == 0 { (a / b) as int } else { (a / b) as int + 1 });
pub enum ParseError { StreamDecodeError(String), Other }
pub type ParseResult<T> = Result<T, ParseError>;
#[verifier::external_body]
fn mk_err() -> ParseError { ParseError::Other }

#[verifier::external_body]
pub struct PdfDictionary { _p: u8 }
#[verifier::external_body]
pub struct PdfObject { _p: u8 }
impl PdfDictionary {
    #[verifier::external_body]
    fn get(&self, key: &str) -> (r: Option<&PdfObject>) { unimplemented!() }
}
impl PdfObject {
    #[verifier::external_body]
    fn as_integer(&self) -> (r: Option<i64>) { unimplemented!() }
}

fn apply_png_predictor_advanced(
    data: &[u8],
    _predictor: u32,
    params: &PdfDictionary,
) -> ParseResult<Vec<u8>> 
{
    // Get columns (width of a row in bytes)
    let columns = params
        .get("Columns")
        .and_then(|obj| obj.as_integer())
        .unwrap_or(1) as usize;

    // Get BitsPerComponent (defaults to 8)
    let bpc = params
        .get("BitsPerComponent")
        .and_then(|obj| obj.as_integer())
        .unwrap_or(8) as usize;

    // Get Colors (number of color components, defaults to 1)
    let colors = params
        .get("Colors")
        .and_then(|obj| obj.as_integer())
        .unwrap_or(1) as usize;

    // Calculate bytes per pixel
    let bytes_per_pixel = (bpc * colors).div_ceil(8);
    Ok(Vec::new())
}
}
fn main(){}
