use vstd::prelude::*;
use std::collections::HashMap;
use vstd::std_specs::hash::*;
verus! {
#[derive(Clone, Copy)]
struct XRefEntry { offset: u64, generation: u16, in_use: bool }
#[derive(Clone)]
struct XRefEntryExt { basic: XRefEntry, compressed_info: Option<(u32, u32)> }

// abstract definition of one object in one revision / in the merged table
enum Def { InUse(u64, u16), Free, Compressed(u32, u32) }

// how the reader resolves an object number from the two maps (transcribed from load_object_from_disk)
spec fn dispatch(entries: Map<u32, XRefEntry>, ext: Map<u32, XRefEntryExt>, n: u32) -> Option<Def> {
    if ext.contains_key(n) && ext[n].compressed_info.is_some() {
        Some(Def::Compressed(ext[n].compressed_info.unwrap().0, ext[n].compressed_info.unwrap().1))
    } else if entries.contains_key(n) {
        if entries[n].in_use { Some(Def::InUse(entries[n].offset, entries[n].generation)) } else { Some(Def::Free) }
    } else { None }
}

// newest-first combination of two resolutions
spec fn newer_wins(newer: Option<Def>, older: Option<Def>) -> Option<Def> {
    if newer.is_some() { newer } else { older }
}

fn merge_step(m_entries: &mut HashMap<u32, XRefEntry>, m_ext: &mut HashMap<u32, XRefEntryExt>,
              t_entries: &HashMap<u32, XRefEntry>, t_ext: &HashMap<u32, XRefEntryExt>)
    ensures forall|n: u32| dispatch(final(m_entries)@, final(m_ext)@, n)
                == newer_wins(dispatch(old(m_entries)@, old(m_ext)@, n), dispatch(t_entries@, t_ext@, n)),
{
    for (obj_num__r, entry__r) in t_entries.iter() 
    { let obj_num = *obj_num__r; let entry = *entry__r;
        m_entries.entry(obj_num).or_insert(entry);
    }
    for (obj_num__r, ext_entry__r) in t_ext.iter() 
    { let obj_num = *obj_num__r; let ext_entry = ext_entry__r.clone();
        m_ext
            .entry(obj_num)
            .or_insert(ext_entry);
    }
}
}
fn main(){}
