use vstd::prelude::*;
verus! {

spec fn pow256(w: nat) -> nat decreases w { if w == 0 { 1 } else { 256 * pow256((w - 1) as nat) } }
spec fn be_bytes(v: nat, w: nat) -> Seq<u8> decreases w {
    if w == 0 { Seq::empty() } else { be_bytes(v / 256, (w - 1) as nat).push((v % 256) as u8) }
}

    fn write_field(data: &mut Vec<u8>, value: u64, width: usize) 
        requires width <= 8,
        ensures final(data)@.len() == old(data)@.len() + width,
           final(data)@.subrange(0, old(data)@.len() as int) == old(data)@,
    {
        let mut i__0 = width;
        while i__0 > 0 
            invariant i__0 <= width, width <= 8, data@.len() == old(data)@.len() + (width - i__0),
              data@.subrange(0, old(data)@.len() as int) == old(data)@,
            decreases i__0
        {
            i__0 -= 1; let i = i__0;
            data.push(((value >> (i * 8)) & 0xFF) as u8);
        }
    }

    fn read_field(data: &[u8], width: usize) -> u64 {
        let mut value = 0u64;
        for i in 0..width {
            if i < data.len() {
                value = (value << 8) | (data[i] as u64);
            }
        }
        value
    }
}
fn main(){}
