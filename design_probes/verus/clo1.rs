use vstd::prelude::*;
verus! {
fn test(key: &u32) {
    let f = |k: &u32| -> (b: bool) ensures b == (*k != *key) { k != key };
    proof {
        assert(forall|x: u32| call_ensures(f, (&x,), true) ==> x != *key);   // 1
        assert(forall|x: u32| x != *key ==> call_ensures(f, (&x,), true));   // 2
    }
}
}
fn main(){}
