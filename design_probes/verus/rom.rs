use vstd::prelude::*;
verus! {

fn to_roman(mut num: u32) -> String {
    if num == 0 {
        return String::new();
    }

    let values = [
        (1000, "m"),
        (900, "cm"),
        (500, "d"),
        (400, "cd"),
        (100, "c"),
        (90, "xc"),
        (50, "l"),
        (40, "xl"),
        (10, "x"),
        (9, "ix"),
        (5, "v"),
        (4, "iv"),
        (1, "i"),
    ];

    let mut result = String::new();

    let mut k__0 = 0;
    while k__0 < values.len() 
        invariant k__0 <= 13, values@.len() == 13
        decreases 13 - k__0
    { let value = &values[k__0].0; let numeral = &values[k__0].1;
        while num >= *value 
            invariant *value > 0
            decreases num
        {
            result.push_str(numeral);
            num -= value;
        }
        k__0 += 1;
    }

    result
}
}
fn main(){}
