use vstd::prelude::*;
verus! {
global size_of usize == 8;
struct OutlineItem {
    open: bool,
    children: Vec<OutlineItem>,
}

spec fn sum_all(c: Seq<OutlineItem>) -> int decreases c, 0int {
    if c.len() == 0 { 0 } else { sum_all(c.drop_last()) + spec_count_all(c.last()) }
}
spec fn spec_count_all(it: OutlineItem) -> int decreases it, 1int {
    1 + sum_all(it.children@)
}
spec fn sum_vis(c: Seq<OutlineItem>) -> int decreases c, 0int {
    if c.len() == 0 { 0 } else { sum_vis(c.drop_last()) + spec_count_visible(c.last()) }
}
spec fn spec_count_visible(it: OutlineItem) -> int decreases it, 1int {
    1 + (if it.open { sum_vis(it.children@) } else { 0 })
}
// ISO 32000-1 Table 153 /Count
spec fn iso_count(it: OutlineItem) -> int {
    if it.open { sum_vis(it.children@) } else { -sum_vis(it.children@) }
}
proof fn lemma_sum_all_pos(c: Seq<OutlineItem>) ensures sum_all(c) >= 0 decreases c, 0int
{ if c.len() > 0 { lemma_sum_all_pos(c.drop_last()); lemma_count_all_pos(c.last()); } }
proof fn lemma_count_all_pos(it: OutlineItem) ensures spec_count_all(it) >= 1 decreases it, 1int
{ lemma_sum_all_pos(it.children@); }

impl OutlineItem {
    fn count_all(&self) -> (r: i64)
        requires spec_count_all(*self) < 0x7fff_ffff_ffff_ffff,
        ensures r == spec_count_all(*self)
        decreases self
    {
        let mut count = 1; // Self
        proof { lemma_sum_all_pos(self.children@); }
        for child in it: &self.children
            invariant count == 1 + sum_all(self.children@.subrange(0, it.index@ as int)),
                spec_count_all(*self) < 0x7fff_ffff_ffff_ffff,
        {
            proof {
                let i = it.index@ as int;
                let c = self.children@;
                assert(c.subrange(0, i + 1).drop_last() =~= c.subrange(0, i));
                assert(c.subrange(0, i + 1).last() == *child);
                // the running total never exceeds the final total
                lemma_prefix_le(c, i + 1);
                lemma_count_all_pos(*child);
                lemma_sum_all_pos(c.subrange(0, i));
            }
            count += child.count_all();
        }
        proof { assert(self.children@.subrange(0, self.children@.len() as int) =~= self.children@); }
        count
    }
}
proof fn lemma_prefix_le(c: Seq<OutlineItem>, k: int)
    requires 0 <= k <= c.len(),
    ensures sum_all(c.subrange(0, k)) <= sum_all(c), 
    decreases c.len() - k
{
    if k < c.len() {
        lemma_prefix_le(c, k + 1);
        assert(c.subrange(0, k + 1).drop_last() =~= c.subrange(0, k));
        lemma_count_all_pos(c.subrange(0, k + 1).last());
    } else {
        assert(c.subrange(0, k) =~= c);
    }
}
}
fn main(){}
