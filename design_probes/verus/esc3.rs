use vstd::prelude::*;
verus! {

// ---- spec: writer escape (ISO 7.3.4.2 minimal) ----
spec fn esc1(b: u8) -> Seq<u8> {
    if b == 0x5Cu8 { seq![0x5Cu8, 0x5Cu8] }
    else if b == 0x28u8 { seq![0x5Cu8, 0x28u8] }
    else if b == 0x29u8 { seq![0x5Cu8, 0x29u8] }
    else { seq![b] }
}
spec fn esc(s: Seq<u8>) -> Seq<u8> decreases s.len() {
    if s.len() == 0 { Seq::empty() } else { esc(s.drop_last()) + esc1(s.last()) }
}

fn escape_pdf_string_bytes(input: &[u8]) -> (out: Vec<u8>)
    ensures out@ == esc(input@)
{
    let mut out = Vec::with_capacity(input.len());
    for byte__r in it: input.iter()
        invariant out@ == esc(input@.subrange(0, it.index@ as int)),
    { let byte = *byte__r;
        proof {
            let i = it.index@ as int;
            assert(input@.subrange(0, i + 1).drop_last() =~= input@.subrange(0, i));
            assert(input@.subrange(0, i + 1).last() == byte);
        }
        match byte {
            b'\\' => out.extend_from_slice(&[0x5Cu8, 0x5Cu8]),
            b'(' => out.extend_from_slice(&[0x5Cu8, 0x28u8]),
            b')' => out.extend_from_slice(&[0x5Cu8, 0x29u8]),
            other => out.push(other),
        }
    }
    proof { assert(input@.subrange(0, input@.len() as int) =~= input@); }
    out
}
}
fn main(){}
