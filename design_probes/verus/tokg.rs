use vstd::prelude::*;
verus! {
global size_of usize == 8;
pub enum ParseError { SyntaxError { position: usize, message: String }, Other }
pub type ParseResult<T> = Result<T, ParseError>;
pub enum Token { String(Vec<u8>), HexString(Vec<u8>), Other }
// ---------- reader side: library reading of a literal string body ----------
pub open spec fn is_oct(b: u8) -> bool { 0x30 <= b <= 0x37 }
pub open spec fn simple_escape(e: u8) -> u8 {
    if e == 0x6Eu8 { 0x0Au8 } else if e == 0x72u8 { 0x0Du8 } else if e == 0x74u8 { 0x09u8 }
    else if e == 0x62u8 { 0x08u8 } else if e == 0x66u8 { 0x0Cu8 } else { e }
}
// returns (content, index after the closing paren)
pub open spec fn lit_dec(t: Seq<u8>, i: int, depth: int, acc: Seq<u8>) -> (Seq<u8>, int)
    decreases t.len() - i
{
    if i < 0 || i >= t.len() || depth <= 0 { (acc, i) }
    else {
        let ch = t[i];
        if ch == 0x5Cu8 {
            if i + 1 >= t.len() { (acc, i + 1) }
            else {
                let e = t[i + 1];
                if is_oct(e) {
                    // up to three octal digits, high-order overflow ignored
                    let v1 = (e - 0x30u8) as int;
                    if i + 2 < t.len() && is_oct(t[i + 2]) {
                        let v2 = v1 * 8 + (t[i + 2] - 0x30u8) as int;
                        if i + 3 < t.len() && is_oct(t[i + 3]) {
                            let v3 = v2 * 8 + (t[i + 3] - 0x30u8) as int;
                            lit_dec(t, i + 4, depth, acc.push((v3 % 256) as u8))
                        } else { lit_dec(t, i + 3, depth, acc.push((v2 % 256) as u8)) }
                    } else { lit_dec(t, i + 2, depth, acc.push((v1 % 256) as u8)) }
                } else {
                    lit_dec(t, i + 2, depth, acc.push(simple_escape(e)))
                }
            }
        } else if ch == 0x28u8 {
            lit_dec(t, i + 1, depth + 1, acc.push(ch))
        } else if ch == 0x29u8 {
            if depth - 1 > 0 { lit_dec(t, i + 1, depth - 1, acc.push(ch)) } else { (acc, i + 1) }
        } else {
            lit_dec(t, i + 1, depth, acc.push(ch))
        }
    }
}


// value and end position of an octal escape starting at i (t[i] is an octal digit)
pub open spec fn oct_val(t: Seq<u8>, i: int) -> (u8, int) {
    let v1 = (t[i] - 0x30u8) as int;
    if i + 1 < t.len() && is_oct(t[i + 1]) {
        let v2 = v1 * 8 + (t[i + 1] - 0x30u8) as int;
        if i + 2 < t.len() && is_oct(t[i + 2]) {
            let v3 = v2 * 8 + (t[i + 2] - 0x30u8) as int;
            ((v3 % 256) as u8, i + 3)
        } else { ((v2 % 256) as u8, i + 2) }
    } else { ((v1 % 256) as u8, i + 1) }
}

spec fn trunc8(v: u16) -> u8 { #[verifier::truncate] (v as u8) }
proof fn lemma_trunc8(v: u16) ensures trunc8(v) as int == (v as int) % 256
{ assert(#[verifier::truncate] (v as u8) as int == (v as int) % 256) by (bit_vector); }

pub struct ContentTokenizer<'a> {
    input: &'a [u8],
    position: usize,
    in_inline_image: bool,
}
impl<'a> ContentTokenizer<'a> {
    pub closed spec fn wf(&self) -> bool { self.position <= self.input@.len() && self.input@.len() <= 0x7fff_ffff_ffff_ffff }

    fn read_octal_escape(&mut self) -> (r: ParseResult<u8>)
        requires old(self).wf(), old(self).position < old(self).input@.len(), is_oct(old(self).input@[old(self).position as int]),
        ensures final(self).wf(), final(self).input == old(self).input,
            r == Ok::<u8, ParseError>(oct_val(old(self).input@, old(self).position as int).0),
            final(self).position == oct_val(old(self).input@, old(self).position as int).1,
    {
        // Use u16 to avoid overflow panic on malformed octal sequences (e.g. \777).
        // Per ISO 32000-1:2008 §7.3.4.2: "high-order overflow shall be ignored".
        let mut value = 0u16;
        let mut count = 0;

        while count < 3 && self.position < self.input.len()
            invariant self.wf(), self.input == old(self).input, 0 <= count <= 3,
                self.position == old(self).position + count,
                count == 0 ==> value == 0,
                count == 1 ==> value == (self.input@[old(self).position as int] - 0x30u8) as u16,
                count == 2 ==> value == (self.input@[old(self).position as int] - 0x30u8) as u16 * 8 + (self.input@[old(self).position as int + 1] - 0x30u8) as u16,
                count == 3 ==> value == ((self.input@[old(self).position as int] - 0x30u8) as u16 * 8 + (self.input@[old(self).position as int + 1] - 0x30u8) as u16) * 8 + (self.input@[old(self).position as int + 2] - 0x30u8) as u16,
                count >= 1 ==> is_oct(self.input@[old(self).position as int]),
                count >= 2 ==> is_oct(self.input@[old(self).position as int + 1]),
                count >= 3 ==> is_oct(self.input@[old(self).position as int + 2]),
                count >= 1 || is_oct(self.input@[old(self).position as int]),
            ensures count == 3 || self.position >= self.input@.len() || !is_oct(self.input@[self.position as int]),
            decreases 3 - count
        {
            match self.input[self.position] {
                b'0'..=b'7' => {
                    value = value * 8 + u16::from(self.input[self.position] - b'0');
                    self.position += 1;
                    count += 1;
                }
                _ => break,
            }
        }

        proof { lemma_trunc8(value); }
        Ok(#[verifier::truncate] (value as u8))
    }

    fn read_literal_string(&mut self) -> (r: ParseResult<Option<Token>>)
        requires old(self).wf(), old(self).position < old(self).input@.len(), old(self).input@.len() < 0x7fff_ffff,
        ensures final(self).wf(), final(self).input == old(self).input,
            r matches Ok(Some(Token::String(v))) && (v@, final(self).position as int) == lit_dec(old(self).input@, old(self).position as int + 1, 1, Seq::empty()),
    {
        self.position += 1; // Skip opening '('
        let mut result = Vec::new();
        let mut paren_depth = 1;
        let mut escape = false;

        while self.position < self.input.len() && paren_depth > 0
            invariant self.wf(), self.input == old(self).input, 0 <= paren_depth <= self.position, self.input@.len() < 0x7fff_ffff,
                !escape ==> lit_dec(self.input@, self.position as int, paren_depth as int, result@)
                    == lit_dec(self.input@, old(self).position as int + 1, 1, Seq::empty()),
                escape ==> self.position >= 1 && self.input@[self.position as int - 1] == 0x5Cu8 && paren_depth > 0
                    && lit_dec(self.input@, self.position as int - 1, paren_depth as int, result@)
                    == lit_dec(self.input@, old(self).position as int + 1, 1, Seq::empty()),
            decreases self.input@.len() - self.position
        {
            let ch = self.input[self.position];
            self.position += 1;

            if escape {
                match ch {
                    b'n' => result.push(b'\n'),
                    b'r' => result.push(b'\r'),
                    b't' => result.push(b'\t'),
                    b'b' => result.push(b'\x08'),
                    b'f' => result.push(b'\x0C'),
                    b'(' => result.push(b'('),
                    b')' => result.push(b')'),
                    b'\\' => result.push(b'\\'),
                    b'0'..=b'7' => {
                        // Octal escape sequence
                        self.position -= 1;
                        let octal_value = self.read_octal_escape()?;
                        result.push(octal_value);
                    }
                    _ => result.push(ch), // Unknown escape, treat as literal
                }
                escape = false;
            } else {
                match ch {
                    b'\\' => escape = true,
                    b'(' => {
                        paren_depth += 1;
                        result.push(ch);
                    }
                    b')' => {
                        paren_depth -= 1;
                        if paren_depth > 0 {
                            result.push(ch);
                        }
                    }
                    _ => result.push(ch),
                }
            }
        }

        Ok(Some(Token::String(result)))
    }
}
}
fn main(){}
