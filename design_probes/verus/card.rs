use vstd::prelude::*;
use vstd::set_lib::*;
verus! {
spec fn enc(p: (u32, u16)) -> int { p.0 as int * 65536 + p.1 as int }

proof fn lemma_pairs_bounded(s: Set<(u32, u16)>)
    requires s.finite(),
    ensures s.len() <= 0x1_0000_0000_0000,
{
    let img = s.map(|p: (u32, u16)| enc(p));
    let rng = set_int_range(0, 0x1_0000_0000_0000);
    lemma_int_range(0, 0x1_0000_0000_0000);
    assert(img.subset_of(rng)) by {
        assert forall|x: int| img.contains(x) implies rng.contains(x) by {
            let p = choose|p: (u32, u16)| s.contains(p) && enc(p) == x;
            assert(0 <= enc(p) < 0x1_0000_0000_0000);
        }
    }
    lemma_len_subset(img, rng);
    lemma_map_size(s, img, |p: (u32, u16)| enc(p));
}
}
fn main(){}
