#![feature(allocator_api)]
use vstd::prelude::*;
verus! {
global size_of usize == 8;

pub assume_specification<T, A, I> [<std::vec::Vec<T, A> as std::iter::Extend<T>>::extend] (v: &mut std::vec::Vec<T, A>, it: I)
    where A: std::alloc::Allocator, I: std::iter::IntoIterator<Item = T>;

#[derive(Clone, Copy, PartialEq, Eq)]
pub struct ObjectId { n: u32, g: u16 }
pub struct PdfError { _p: u8 }
pub type Result<T> = core::result::Result<T, PdfError>;

pub struct OutlineItem { pub open: bool, pub children: Vec<OutlineItem> }
pub struct OutlineTree { pub items: Vec<OutlineItem> }

// what one written outline dictionary says about links
pub struct Links { pub id: ObjectId, pub parent: ObjectId, pub first: Option<ObjectId>, pub last: Option<ObjectId>, pub prev: Option<ObjectId>, pub next: Option<ObjectId> }

#[verifier::external_body]
pub struct Dictionary { _p: u8 }
pub uninterp spec fn dict_links(d: Dictionary) -> Links;   // projection of a written dictionary

#[verifier::external_body]
pub struct PdfWriter { _p: u8 }
impl PdfWriter {
    pub uninterp spec fn log(&self) -> Seq<Links>;        // outline dictionaries written so far
    pub uninterp spec fn next_id(&self) -> nat;
    #[verifier::external_body]
    fn allocate_object_id(&mut self) -> (r: ObjectId)
        ensures final(self).log() == old(self).log(), final(self).next_id() == old(self).next_id() + 1, r.n as nat == old(self).next_id(),
    { unimplemented!() }
    #[verifier::external_body]
    fn write_item_dict(&mut self, id: ObjectId, d: Dictionary) -> (r: Result<()>)
        ensures final(self).next_id() == old(self).next_id(),
            r.is_ok() ==> final(self).log() == old(self).log().push(Links { id, ..dict_links(d) }),
    { unimplemented!() }
}

#[verifier::external_body]
fn outline_item_to_dict(item: &OutlineItem, parent_ref: ObjectId, first_ref: Option<ObjectId>, last_ref: Option<ObjectId>, prev_ref: Option<ObjectId>, next_ref: Option<ObjectId>) -> (d: Dictionary)
    ensures dict_links(d).parent == parent_ref, dict_links(d).prev == prev_ref, dict_links(d).next == next_ref,
        dict_links(d).first == (if item.children@.len() > 0 { first_ref } else { None }),
        dict_links(d).last == (if item.children@.len() > 0 { last_ref } else { None }),
{ unimplemented!() }

impl PdfWriter {
    fn write_outline_item(
        &mut self,
        item: &OutlineItem,
        item_id: ObjectId,
        parent_id: ObjectId,
        prev_id: Option<ObjectId>,
        next_id: Option<ObjectId>,
        all_ids: &mut Vec<ObjectId>,
        id_index: &mut usize,
    ) -> Result<Vec<ObjectId>> 
        decreases item
    {
        let mut written_ids = vec![item_id];

        // Handle children if any
        let (first_child_id, last_child_id) = if !item.children.is_empty() {
            let first_idx = *id_index;
            let first_id = all_ids[first_idx];
            let last_idx = first_idx + item.children.len() - 1;
            let last_id = all_ids[last_idx];

            // Write children
            let mut i = 0;
            while i < item.children.len() 
                decreases item.children@.len() - i
            { let child = &item.children[i];
                let child_id = all_ids[*id_index];
                *id_index += 1;

                let child_prev = if i > 0 {
                    Some(all_ids[first_idx + i - 1])
                } else {
                    None
                };
                let child_next = if i < item.children.len() - 1 {
                    Some(all_ids[first_idx + i + 1])
                } else {
                    None
                };

                let child_ids = self.write_outline_item(
                    child, child_id, item_id, // This item is the parent
                    child_prev, child_next, all_ids, id_index,
                )?;

                written_ids.extend(child_ids);
                i += 1;
            }

            (Some(first_id), Some(last_id))
        } else {
            (None, None)
        };

        // Create item dictionary
        let item_dict = outline_item_to_dict(
            item,
            parent_id,
            first_child_id,
            last_child_id,
            prev_id,
            next_id,
        );

        self.write_item_dict(item_id, item_dict)?;

        Ok(written_ids)
    }
}
}
fn main(){}
