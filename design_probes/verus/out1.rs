use vstd::prelude::*;
verus! {
struct OutlineItem {
    open: bool,
    children: Vec<OutlineItem>,
}

spec fn sum_all(c: Seq<OutlineItem>) -> int decreases c, 0int {
    if c.len() == 0 { 0 } else { sum_all(c.drop_last()) + spec_count_all(c.last()) }
}
spec fn spec_count_all(it: OutlineItem) -> int decreases it, 1int {
    1 + sum_all(it.children@)
}

impl OutlineItem {
    fn count_all(&self) -> (r: i64)
        ensures r == spec_count_all(*self)
        decreases self
    {
        let mut count = 1; // Self
        for child in &self.children {
            count += child.count_all();
        }
        count
    }
}
}
fn main(){}
