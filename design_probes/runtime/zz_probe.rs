use oxidize_pdf::structure::{OutlineItem, OutlineTree};
use oxidize_pdf::{Document, Page};
use oxidize_pdf::page_labels::PageLabelStyle;

fn main() {
    // ---- C28 outline links
    let mut doc = Document::new();
    doc.add_page(Page::a4());
    let mut a = OutlineItem::new("A");
    a.add_child(OutlineItem::new("A1"));
    let b = OutlineItem::new("B");
    let mut tree = OutlineTree::new();
    tree.add_item(a);
    tree.add_item(b);
    doc.set_outline(tree);
    let bytes = doc.to_bytes().unwrap();
    let text = String::from_utf8_lossy(&bytes);
    // print objects containing /Title or /Type /Outlines
    for chunk in text.split("endobj") {
        if chunk.contains("/Title") || chunk.contains("/Outlines") && chunk.contains("/First") {
            println!("{}\n----", chunk.trim());
        }
    }
    // ---- C28 closed count
    let mut c = OutlineItem::new("C0").closed();
    let mut d = OutlineItem::new("D").closed();
    d.add_child(OutlineItem::new("E"));
    c.add_child(d);
    println!("closed C0[closed D[E]]: count_all={} count_visible={}", c.count_all(), c.count_visible());
    // ---- C27
    println!("letters 27={} 28={} 54={}", PageLabelStyle::UppercaseLetters.format(27), PageLabelStyle::UppercaseLetters.format(28), PageLabelStyle::UppercaseLetters.format(54));
    // ---- C10
    let mut doc2 = Document::new();
    doc2.add_page(Page::a4());
    doc2.set_title("Año");
    let b2 = doc2.to_bytes().unwrap();
    let r = oxidize_pdf::parser::PdfReader::new(std::io::Cursor::new(b2)).unwrap();
    let mut r = r;
    let md = r.metadata().unwrap();
    println!("title read back = {:?}", md.title);
}
