use oxidize_pdf::parser::filters::decode_stream;
use oxidize_pdf::parser::objects::{PdfArray, PdfDictionary, PdfName, PdfObject};
use oxidize_pdf::parser::ParseOptions;
use std::panic::catch_unwind;

fn dict(pairs: Vec<(&str, PdfObject)>) -> PdfDictionary {
    let mut d = PdfDictionary::new();
    for (k, v) in pairs { d.0.insert(PdfName(k.to_string()), v); }
    d
}
fn main() {
    let opts = ParseOptions::default();
    // a85 overflow
    let d = dict(vec![("Filter", PdfObject::Name(PdfName("ASCII85Decode".into())))]);
    let r = catch_unwind(|| decode_stream(b"uuuuu~>", &d, &ParseOptions::default()).map(|v| v.len()));
    println!("a85 uuuuu: {:?}", r.map_err(|_| "PANIC"));
    // predictor Colors -1
    let parms = dict(vec![("Predictor", PdfObject::Integer(12)), ("Colors", PdfObject::Integer(-1)), ("Columns", PdfObject::Integer(2)), ("BitsPerComponent", PdfObject::Integer(8))]);
    let d = dict(vec![("Filter", PdfObject::Name(PdfName("RunLengthDecode".into()))), ("DecodeParms", PdfObject::Dictionary(parms))]);
    let r = catch_unwind(|| decode_stream(&[0x01, 0x00, 0x00, 0x80], &d, &ParseOptions::default()).map(|v| v.len()));
    println!("predictor colors -1: {:?}", r.map_err(|_| "PANIC"));
    // TIFF predictor 2
    let parms = dict(vec![("Predictor", PdfObject::Integer(2)), ("Colors", PdfObject::Integer(1)), ("Columns", PdfObject::Integer(2)), ("BitsPerComponent", PdfObject::Integer(8))]);
    let d = dict(vec![("Filter", PdfObject::Name(PdfName("RunLengthDecode".into()))), ("DecodeParms", PdfObject::Dictionary(parms))]);
    let r = decode_stream(&[0x01, 0x05, 0x03, 0x80], &d, &opts);
    println!("tiff predictor 2 on [5,3]: {:?} (spec: [5, 8])", r);
    // cmap 9-byte code
    let cm = b"/CIDInit /ProcSet findresource begin\n12 dict begin\nbegincmap\n1 begincodespacerange\n<000000000000000000> <FFFFFFFFFFFFFFFFFF>\nendcodespacerange\n1 beginbfrange\n<010000000000000000> <010000000000000005> <0041>\nendbfrange\nendcmap\n";
    let r = catch_unwind(|| { let c = oxidize_pdf::text::cmap::CMap::parse(cm).unwrap(); c.map(&[1,0,0,0,0,0,0,0,2]) });
    println!("cmap 9-byte: {:?}", r.map_err(|_| "PANIC"));
    // rotation angle
    let _ = PdfArray(vec![]);
}
