"""Small Rust lexer + item locator used by the extractor.

No regex-on-braces: strings, raw strings, byte strings, chars, lifetimes, nested block comments are tokenised so that
bracket matching and keyword search never look inside them.
"""
import re
from dataclasses import dataclass


class ExtractError(Exception):
    """anchor lost / ambiguous / unsupported construct -> the run is UNDECIDED (exit 2), never an alarm"""


@dataclass
class Tok:
    kind: str  # ws lc bc str char life ident num punct
    text: str
    start: int
    end: int


_ident_re = re.compile(r"[A-Za-z_][A-Za-z0-9_]*")
_num_re = re.compile(r"[0-9][0-9A-Za-z_]*(\.[0-9][0-9A-Za-z_]*)?")
_PUNCT3 = ("..=", "...", "<<=", ">>=")
_PUNCT2 = ("->", "=>", "::", "==", "!=", "<=", ">=", "&&", "||", "+=", "-=", "*=", "/=", "%=", "^=", "&=", "|=", "<<",
           ">>", "..")


def lex(src: str):
    toks = []
    i, n = 0, len(src)
    while i < n:
        c = src[i]
        if c.isspace():
            j = i
            while j < n and src[j].isspace():
                j += 1
            toks.append(Tok("ws", src[i:j], i, j)); i = j; continue
        if src.startswith("//", i):
            j = src.find("\n", i)
            j = n if j < 0 else j
            toks.append(Tok("lc", src[i:j], i, j)); i = j; continue
        if src.startswith("/*", i):
            depth, j = 1, i + 2
            while j < n and depth:
                if src.startswith("/*", j): depth += 1; j += 2
                elif src.startswith("*/", j): depth -= 1; j += 2
                else: j += 1
            toks.append(Tok("bc", src[i:j], i, j)); i = j; continue
        # raw strings r"..", r#".."#, br"..", br#".."#
        m = re.match(r'(b?r)(#*)"', src[i:i + 40])
        if m:
            hashes = m.group(2)
            close = '"' + hashes
            j = src.find(close, i + len(m.group(0)))
            if j < 0: raise ExtractError("unterminated raw string")
            j += len(close)
            toks.append(Tok("str", src[i:j], i, j)); i = j; continue
        if c == '"' or (c == 'b' and i + 1 < n and src[i + 1] == '"'):
            j = i + (2 if c == 'b' else 1)
            while j < n and src[j] != '"':
                j += 2 if src[j] == '\\' else 1
            j += 1
            toks.append(Tok("str", src[i:j], i, j)); i = j; continue
        if c == "'" or (c == 'b' and i + 1 < n and src[i + 1] == "'"):
            k = i + (1 if c == 'b' else 0)
            # char literal or lifetime
            m = re.match(r"'(\\x[0-9a-fA-F]{2}|\\u\{[0-9a-fA-F_]+\}|\\.|[^\\'])'", src[k:k + 14])
            if m:
                j = k + len(m.group(0))
                toks.append(Tok("char", src[i:j], i, j)); i = j; continue
            m = re.match(r"'[A-Za-z_][A-Za-z0-9_]*", src[k:k + 64])
            if m and c == "'":
                j = k + len(m.group(0))
                toks.append(Tok("life", src[i:j], i, j)); i = j; continue
            raise ExtractError(f"cannot lex quote at {i}")
        m = _ident_re.match(src, i)
        if m:
            j = m.end()
            toks.append(Tok("ident", src[i:j], i, j)); i = j; continue
        m = _num_re.match(src, i)
        if m:
            j = m.end()
            # do not swallow `..` of a range: 0..n
            t = src[i:j]
            if ".." in src[i:j + 1] and "." in t:
                j = i + t.index(".")
            toks.append(Tok("num", src[i:j], i, j)); i = j; continue
        for p in _PUNCT3:
            if src.startswith(p, i):
                toks.append(Tok("punct", p, i, i + 3)); i += 3; break
        else:
            for p in _PUNCT2:
                if src.startswith(p, i):
                    toks.append(Tok("punct", p, i, i + 2)); i += 2; break
            else:
                toks.append(Tok("punct", c, i, i + 1)); i += 1
    return toks


OPEN = {"(": ")", "[": "]", "{": "}"}
CLOSE = {v: k for k, v in OPEN.items()}


def code_idx(toks):
    """indices of tokens that are not whitespace/comments"""
    return [i for i, t in enumerate(toks) if t.kind not in ("ws", "lc", "bc")]


def match_forward(toks, i):
    """toks[i] is an opening bracket; return index of its closing partner"""
    o = toks[i].text
    c = OPEN[o]
    depth = 0
    for j in range(i, len(toks)):
        t = toks[j]
        if t.kind != "punct": continue
        if t.text in OPEN: depth += 1
        elif t.text in CLOSE:
            depth -= 1
            if depth == 0:
                if t.text != c: raise ExtractError("mismatched bracket")
                return j
    raise ExtractError("unbalanced bracket")


def match_backward(toks, i):
    depth = 0
    for j in range(i, -1, -1):
        t = toks[j]
        if t.kind != "punct": continue
        if t.text in CLOSE: depth += 1
        elif t.text in OPEN:
            depth -= 1
            if depth == 0: return j
    raise ExtractError("unbalanced bracket (backward)")


def next_code(toks, i):
    j = i + 1
    while j < len(toks) and toks[j].kind in ("ws", "lc", "bc"): j += 1
    return j if j < len(toks) else None


def prev_code(toks, i):
    j = i - 1
    while j >= 0 and toks[j].kind in ("ws", "lc", "bc"): j -= 1
    return j if j >= 0 else None


def first_brace_at_depth0(toks, i, stop=None):
    """first `{` after index i that is not nested in () or []"""
    depth = 0
    j = i
    n = len(toks) if stop is None else stop
    while j < n:
        t = toks[j]
        if t.kind == "punct":
            if t.text in "([": depth += 1
            elif t.text in ")]": depth -= 1
            elif t.text == "{" and depth == 0: return j
            elif t.text == ";" and depth == 0: return None
        j += 1
    return None


class SourceFile:
    def __init__(self, path):
        self.path = path
        self.src = open(path, encoding="utf-8").read()
        self.toks = lex(self.src)
        self._depths = None

    def line_of(self, off):
        return self.src.count("\n", 0, off) + 1

    # ---- containers -------------------------------------------------------------------------------------------
    def _blocks(self):
        """yield (kind, name, header_start_tok, open_tok, close_tok, depth) for impl/mod/trait blocks"""
        toks = self.toks
        out = []
        stack = []  # closing tok indices of enclosing containers

        def scan(lo, hi, depth, in_test):
            i = lo
            while i < hi:
                t = toks[i]
                if t.kind == "ident" and t.text in ("impl", "mod", "trait"):
                    ob = first_brace_at_depth0(toks, i + 1, hi)
                    if ob is None:
                        i += 1; continue
                    cb = match_forward(toks, ob)
                    hdr = [x for x in toks[i + 1:ob] if x.kind not in ("ws", "lc", "bc")]
                    name = None
                    if t.text == "impl":
                        # self type = last path ident before `{`/where, skipping generic args
                        hd = hdr
                        for k, x in enumerate(hd):
                            if x.kind == "ident" and x.text == "where": hd = hd[:k]; break
                        # cut at `for` if trait impl
                        trait = None
                        for k, x in enumerate(hd):
                            if x.kind == "ident" and x.text == "for":
                                trait = _last_path_ident(hd[:k]); hd = hd[k + 1:]; break
                        name = _last_path_ident(hd)
                        out.append(dict(kind="impl", name=name, trait=trait, start=i, open=ob, close=cb, depth=depth,
                                        test=in_test))
                    else:
                        name = hdr[0].text if hdr else None
                        is_test = in_test or (t.text == "mod" and _has_cfg_test(toks, i))
                        out.append(dict(kind=t.text, name=name, trait=None, start=i, open=ob, close=cb, depth=depth,
                                        test=is_test))
                        if t.text == "mod":
                            scan(ob + 1, cb, depth + 1, is_test)
                    i = cb + 1; continue
                if t.kind == "punct" and t.text == "{":
                    i = match_forward(toks, i) + 1; continue
                i += 1
        scan(0, len(toks), 0, False)
        return out

    def blocks(self):
        if getattr(self, "_blk", None) is None: self._blk = self._blocks()
        return self._blk

    # ---- items ------------------------------------------------------------------------------------------------
    def find_fn(self, path, trait=None, nth=None):
        """path = 'name' (free fn, not in a test module) or 'Type::name'. Returns (kw_tok_index, open, close)."""
        toks = self.toks
        cands = []
        if "::" in path:
            ty, name = path.rsplit("::", 1)
            for b in self.blocks():
                if b["kind"] == "impl" and b["name"] == ty and not b["test"] and (trait is None or b["trait"] == trait):
                    cands += self._fns_in(b["open"] + 1, b["close"], name)
                if b["kind"] == "trait" and b["name"] == ty and not b["test"]:
                    cands += self._fns_in(b["open"] + 1, b["close"], name)
        else:
            name = path
            # depth-0 and non-test module level
            spans = [(0, len(toks))]
            cands += self._fns_in(0, len(toks), name, skip_containers=True)
            for b in self.blocks():
                if b["kind"] == "mod" and not b["test"]:
                    cands += self._fns_in(b["open"] + 1, b["close"], name, skip_containers=True)
        # de-dup
        seen, uniq = set(), []
        for c in cands:
            if c[0] not in seen: seen.add(c[0]); uniq.append(c)
        if nth is not None and nth < len(uniq): return uniq[nth]
        if len(uniq) != 1:
            raise ExtractError(f"fn {path} in {self.path}: {len(uniq)} candidates")
        return uniq[0]

    def _fns_in(self, lo, hi, name, skip_containers=False):
        toks = self.toks
        res = []
        i = lo
        while i < hi:
            t = toks[i]
            if t.kind == "ident" and t.text in ("impl", "mod", "trait") and skip_containers:
                ob = first_brace_at_depth0(toks, i + 1, hi)
                if ob is not None:
                    i = match_forward(toks, ob) + 1; continue
            if t.kind == "ident" and t.text == "fn":
                j = next_code(toks, i)
                ob = first_brace_at_depth0(toks, i + 1, hi)
                if ob is None:
                    # declaration without body (trait)
                    i += 1; continue
                cb = match_forward(toks, ob)
                if toks[j].text == name:
                    res.append((i, ob, cb))
                i = cb + 1; continue
            if t.kind == "punct" and t.text == "{":
                i = match_forward(toks, i) + 1; continue
            i += 1
        return res

    def find_item(self, kind, name):
        """struct/enum/const/static/type at module level (any non-test module). Returns (kw_tok, end_tok)."""
        toks = self.toks
        res = []
        regions = [(0, len(toks))] + [(b["open"] + 1, b["close"]) for b in self.blocks()
                                       if b["kind"] in ("mod", "impl") and not b["test"]]
        for lo, hi in regions:
            i = lo
            while i < hi:
                t = toks[i]
                if t.kind == "punct" and t.text == "{":
                    i = match_forward(toks, i) + 1; continue
                if t.kind == "ident" and t.text == kind:
                    j = next_code(toks, i)
                    if toks[j].kind == "ident" and toks[j].text == name:
                        # end: `;` at depth 0 or matching `}`
                        k = j
                        depth = 0
                        while k < hi:
                            x = toks[k]
                            if x.kind == "punct":
                                if x.text in "([": depth += 1
                                elif x.text in ")]": depth -= 1
                                elif x.text == "{" and depth == 0:
                                    e = match_forward(toks, k)
                                    if kind in ("const", "static"):
                                        k = e + 1; continue
                                    res.append((i, e)); break
                                elif x.text == ";" and depth == 0:
                                    res.append((i, k)); break
                            k += 1
                        i = k + 1; continue
                i += 1
        seen, uniq = set(), []
        for c in res:
            if c[0] not in seen: seen.add(c[0]); uniq.append(c)
        if len(uniq) != 1:
            raise ExtractError(f"{kind} {name} in {self.path}: {len(uniq)} candidates")
        return uniq[0]


def _last_path_ident(hdr):
    """last identifier of a type path, ignoring generic argument lists"""
    depth = 0
    last = None
    for x in hdr:
        if x.kind == "punct":
            if x.text == "<": depth += 1
            elif x.text == ">": depth -= 1
            elif x.text == ">>": depth -= 2
        elif x.kind == "ident" and depth == 0 and x.text not in ("dyn", "mut", "const", "unsafe"):
            last = x.text
    return last


def _has_cfg_test(toks, i):
    # look back over attributes preceding `mod`
    j = prev_code(toks, i)
    while j is not None and toks[j].kind == "ident" and toks[j].text in ("pub", "crate"):
        j = prev_code(toks, j)
    while j is not None and toks[j].kind == "punct" and toks[j].text in (")",):
        j = prev_code(toks, match_backward(toks, j))
        if j is not None and toks[j].text == "pub": j = prev_code(toks, j)
    if j is not None and toks[j].kind == "punct" and toks[j].text == "]":
        ob = match_backward(toks, j)
        txt = "".join(x.text for x in toks[ob:j + 1])
        return "cfg(test)" in txt.replace(" ", "")
    return False
