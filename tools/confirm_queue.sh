#!/bin/sh
# development helper: confirm_queue.sh <PROP> ...  -- runs confirm_seed.sh for seeds 1 and 2 of each property, one at a time
# (a lock directory serialises several queues)
while ! mkdir /tmp/seed/.confirm_lock 2>/dev/null; do sleep 20; done
trap 'rmdir /tmp/seed/.confirm_lock' EXIT
for p in "$@"; do
  for k in 1 2; do
    [ -d /tmp/seed/${p}_out/$k ] && CARGO_BUILD_JOBS=8 /verif/tools/confirm_seed.sh $p $k
  done
done
