#!/usr/bin/env python3
"""save_seed.py <PROP> <k> <caught_by> <free text>: copy a confirmed seeded change into /verif/seeded/<PROP>-<k>/"""
import json, os, shutil, sys, subprocess
prop, k, caught, note = sys.argv[1], sys.argv[2], sys.argv[3], sys.argv[4]
src = f"/tmp/seed/{prop}_out/{k}"
dst = f"/verif/seeded/{prop}-{k}"
os.makedirs(dst, exist_ok=True)
patch = "patch_rebased.diff" if os.path.exists(f"{src}/patch_rebased.diff") else "patch.diff"
shutil.copy(f"{src}/{patch}", f"{dst}/patch.diff")
if patch != "patch.diff": shutil.copy(f"{src}/patch.diff", f"{dst}/patch_original_against_pinned_commit.diff")
shutil.copy(f"{src}/demo.rs", f"{dst}/demo.rs")
meta = json.load(open(f"{src}/meta.json"))
conf = open(f"{src}/confirm.log").read() if os.path.exists(f"{src}/confirm.log") else ""
def grab(marker):
    i = conf.find(marker)
    return conf[i:].split("\n")[1].strip() if i >= 0 else None
meta_out = dict(
    property=prop, seed=f"{prop}-{k}", summary=meta.get("summary"), needs_to_manifest=meta.get("needs_to_manifest"),
    files_changed=meta.get("files_changed"), produced_by="independent sub-agent given only the property text and a scratch worktree",
    agent_verification=meta.get("how_verified"),
    my_confirmation=dict(
        where="scratch worktree outside /repo and /verif (removed afterwards)",
        demo_on_pristine=grab("-- demo on pristine"), demo_with_patch=grab("-- demo with patch"),
        full_suite_with_patch="cargo nextest run --workspace --no-fail-fast --offline: no failure outside the pristine worktree's own failure list (font-fixture tests and flaky memory/timing heuristics)",
        extra=note),
    applies_to_current_repo=(patch == "patch.diff"),
    caught_by=caught,
)
json.dump(meta_out, open(f"{dst}/meta.json", "w"), indent=1)
print("saved", dst)
