#!/usr/bin/env python3
"""Runner: decides one property from its deductive units (Verus on extracted code, Kani in place) plus labelled stand-ins.

  check.py <PROPERTY> [--tier quick|thorough]
  check.py <PROPERTY> --replay <file>
  check.py --unit <unit>            (development: assemble + verify one Verus unit, print diagnostics)

exit 0 = every obligation discharged (known findings printed as KNOWN-FINDING), 1 = VIOLATION, 2 = UNDECIDED.
"""
import argparse
import concurrent.futures as cf
import hashlib
import json
import os
import re
import shutil
import subprocess
import sys
import threading
import time

HERE = os.path.dirname(os.path.abspath(__file__))
VERIF = os.path.dirname(HERE)
sys.path.insert(0, HERE)
import assemble as asm  # noqa: E402
from rustlex import ExtractError, lex, next_code, first_brace_at_depth0, match_forward  # noqa: E402
import registry  # noqa: E402

BUILD = os.path.join(VERIF, "build")
EVID = os.path.join(VERIF, "evidence")
REPLAYS = os.path.join(VERIF, "replays")
os.makedirs(BUILD, exist_ok=True); os.makedirs(EVID, exist_ok=True)

VERIFY_MSGS = (
    "postcondition not satisfied", "precondition not satisfied", "invariant not satisfied before loop",
    "invariant not satisfied at end of loop body", "assertion failed", "possible arithmetic underflow/overflow",
    "possible division by zero", "decreases not satisfied", "could not prove termination", "possible bit shift underflow/overflow",
    "recommendation not met", "loop invariant not satisfied", "cannot show invariant holds", "possible truncation",
    "failed this postcondition", "index out of bounds", "assert_by_compute", "possible overflow", "possible underflow",
    "unable to prove", "might not be allowed", "cannot prove", "not satisfied", "precondition not met", "in bounds",
)
UNDECIDED_MSGS = ("rlimit", "resource limit", "timed out", "timeout", "incomplete")


def fn_spans(text):
    """(name, first_line, last_line) for every fn item in an assembled file"""
    toks = lex(text)
    res = []
    i = 0
    line_at = lambda off: text.count("\n", 0, off) + 1
    while i < len(toks):
        t = toks[i]
        if t.kind == "ident" and t.text == "fn":
            j = next_code(toks, i)
            ob = first_brace_at_depth0(toks, i + 1)
            if j is not None and ob is not None and toks[j].kind == "ident":
                cb = match_forward(toks, ob)
                res.append((toks[j].text, line_at(t.start), line_at(toks[cb].end)))
        i += 1
    return res


_ASM_LOCK = threading.Lock()


def run_verus_unit(unit, tier, rlimit=None):
    """returns dict: status(ok|violation|undecided), obligations[], failures[], info"""
    ov = os.path.join(VERIF, "units", unit + ".vu")
    t0 = time.time()
    res = dict(unit=unit, engine="verus", obligations=[], failures=[], undecided=None, rewrites=[], functions=[],
               assumptions=[], wall_s=0.0, smt_ms=0)
    try:
        with _ASM_LOCK:   # assemble.py keeps per-item options in module state: one assembly at a time per process
            a = asm.assemble(ov)
    except ExtractError as e:
        res["undecided"] = f"extract: {e}"; return res
    except Exception as e:  # overlay bug
        res["undecided"] = f"assemble-error: {type(e).__name__}: {e}"; return res
    # one directory per process: concurrent checks of properties that share a unit must not overwrite each other's input.
    # The file name (= Verus crate name, which prefixes every SMT symbol) stays `<unit>.rs` so that the solver sees the
    # same query on every run; a name carrying the pid made near-limit queries pass or hit the rlimit depending on the pid.
    wdir = os.path.join(BUILD, f"run_p{os.getpid()}_{unit}")
    os.makedirs(wdir, exist_ok=True)
    path = os.path.join(wdir, unit + ".rs")
    open(path, "w").write(a["text"])
    res["rewrites"] = [dict(rule=r, where=w, what=x[:160]) for (r, w, x) in a["log"]]
    res["functions"] = a["functions"]
    res["file"] = path
    # assumption scan
    for n, ln in enumerate(a["text"].split("\n"), 1):
        if re.search(r"\bassume\s*\(|\badmit\s*\(|external_body|assume_specification|verifier::external|\baxiom\b", ln) \
                and not ln.strip().startswith("//"):
            res["assumptions"].append(f"{unit}.rs:{n}: {ln.strip()[:200]}")
    cmd = ["verus", path, "--output-json", "--time", "--error-format=json", "--multiple-errors", "20"]
    rlimit = rlimit or a.get("rlimit")
    if rlimit: cmd += ["--rlimit", str(rlimit)]
    res["cmd"] = " ".join(cmd)
    try:
        p = subprocess.run(cmd, capture_output=True, text=True, timeout=900, cwd=wdir)
    except subprocess.TimeoutExpired:
        res["undecided"] = "verus timeout (900 s)"; return res
    finally:
        try: os.replace(path, os.path.join(BUILD, unit + os.environ.get("VERIF_BUILD_SUFFIX", "") + ".rs"))   # keep the last input for inspection
        except OSError: pass
        shutil.rmtree(wdir, ignore_errors=True)
    res["file"] = os.path.join(BUILD, unit + ".rs")
    res["cmd"] = " ".join(cmd).replace(path, res["file"])
    res["wall_s"] = time.time() - t0
    try:
        j = json.loads(p.stdout)
    except Exception:
        res["undecided"] = "verus produced no JSON: " + (p.stderr[-600:] if p.stderr else ""); return res
    diags = []
    for ln in p.stderr.split("\n"):
        ln = ln.strip()
        if not ln.startswith("{"): continue
        try: d = json.loads(ln)
        except Exception: continue
        if d.get("level") != "error": continue
        if d["message"].startswith("aborting due to"): continue
        diags.append(d)
    spans = fn_spans(a["text"])
    vr = j.get("verification-results", {})
    fb = []
    for m in j.get("times-ms", {}).get("smt", {}).get("smt-run-module-times", []):
        fb += m.get("function-breakdown", [])
    res["smt_ms"] = j.get("times-ms", {}).get("smt", {}).get("smt-run", 0)
    crate = unit.replace("-", "_")

    def short(fname):
        return fname.split("::")[-1]
    failures, bad = [], []
    for d in diags:
        msg = d["message"]
        sp = next((s for s in d.get("spans", []) if s.get("is_primary")), d["spans"][0] if d.get("spans") else None)
        line = sp["line_start"] if sp else 0
        fn = "?"
        for fm in a["functions"]:
            if fm.get("out_first", 0) <= line <= fm.get("out_last", -1): fn = fm["name"]
            elif fm.get("out_last", 0) < line <= fm.get("chunk_last", -1): fn = fm["name"] + "__vac"
        if fn == "?":
            inner = [(n, a_, b_) for (n, a_, b_) in spans if a_ <= line <= b_]
            if inner: fn = sorted(inner, key=lambda x: x[2] - x[1])[0][0]
        src = a["linemap"].get(line)
        if src is None:
            fm = next((x for x in a["functions"] if x["name"] == fn), None)
            if fm: src = (fm["file"], fm["line"])
        allsp = [dict(line=s["line_start"], text=(s["text"][0]["text"].strip() if s.get("text") else ""), label=s.get("label"),
                      src=a["linemap"].get(s["line_start"])) for s in d.get("spans", [])]
        rec = dict(unit=unit, function=fn, message=msg, line=line, src=src, spans=allsp, rendered=d.get("rendered", "")[:3000])
        low = msg.lower()
        if d.get("code"):
            bad.append(("not-a-verification-input", rec))   # rustc-level error (type/name resolution), never a proof failure
        elif any(u in low for u in UNDECIDED_MSGS):
            bad.append(("rlimit/timeout", rec))
        elif any(v in low for v in VERIFY_MSGS):
            failures.append(rec)
        else:
            bad.append(("not-a-verification-input", rec))
    if bad:
        kind, rec = bad[0]
        res["undecided"] = f"{kind}: {rec['message']} at {unit}.rs:{rec['line']} ({rec['function']})"
        res["undecided_detail"] = [b[1]["rendered"] for b in bad[:5]]
        return res
    if vr.get("encountered-vir-error"):
        res["undecided"] = "verus reported a VIR error: " + p.stderr[-800:]; return res
    if not fb and not failures:
        res["undecided"] = "no obligations generated: " + p.stderr[-800:]; return res
    # vacuity siblings must fail
    vac_fail = {f["function"] for f in failures if f["function"].endswith("__vac")}
    vac_all = {short(x["function"]) for x in fb if short(x["function"]).endswith("__vac")}
    for v in sorted(vac_all - vac_fail):
        res["undecided"] = f"vacuous precondition: {v} verified assert(false)"; return res
    failures = [f for f in failures if not f["function"].endswith("__vac")]
    failed_fns = {f["function"] for f in failures}
    for x in fb:
        n = short(x["function"])
        if n.endswith("__vac"): continue
        ok = bool(x.get("success")) and n not in failed_fns
        res["obligations"].append(dict(id=f"{unit}::{n}", mode=x.get("mode:", x.get("mode")), ok=ok,
                                       smt_us=x.get("time-micros", 0), rlimit=x.get("rlimit")))
        if not x.get("success") and n not in failed_fns:
            # failed without a diagnostic we understood
            res["undecided"] = f"function {n} failed without a classified diagnostic"; return res
    res["vacuity_guards"] = len(vac_all)
    res["failures"] = failures
    if len(res["obligations"]) < a.get("min_obligations", 1):
        res["undecided"] = f"only {len(res['obligations'])} obligations (< {a['min_obligations']})"
    return res


# -----------------------------------------------------------------------------------------------------------------
def load_known():
    p = os.path.join(VERIF, "known_findings.jsonl")
    out = []
    if os.path.exists(p):
        for ln in open(p):
            ln = ln.strip()
            if ln and not ln.startswith("#"): out.append(json.loads(ln))
    return out


def match_known(prop, f, known):
    for k in known:
        if k.get("status", "known") != "known": continue
        if k["property"] != prop: continue
        if k.get("unit") and k["unit"] != f.get("unit"): continue
        if k.get("function") and k["function"] != f.get("function"): continue
        if k.get("message") and k["message"] not in f.get("message", ""): continue
        if k.get("span_contains"):
            txt = " ".join(s.get("text", "") for s in f.get("spans", []))
            if k["span_contains"] not in txt: continue
        return k
    return None


def write_replay(prop, f, witness):
    d = os.path.join(REPLAYS, prop)
    os.makedirs(d, exist_ok=True)
    key = hashlib.sha1(json.dumps([f.get("unit"), f.get("function"), f.get("message"), f.get("line")]).encode()).hexdigest()[:8]
    path = os.path.join(d, f"{f.get('unit')}__{f.get('function')}__{key}.json")
    json.dump(dict(property=prop, obligation=f"{f.get('unit')}::{f.get('function')}: {f.get('message')}",
                   engine=f.get("engine", "verus"), source=f.get("src"), verifier_output=f.get("rendered"),
                   spans=f.get("spans"), witness=witness), open(path, "w"), indent=1)
    return path


def self_tests(units):
    """thorough tier: apply each unit's deliberate breaks (units/<unit>.breaks: file TAB sed-expression TAB description) to a
    scratch copy of the sources (outside /repo and /verif, removed afterwards) and require the unit to turn red."""
    import shutil, tempfile
    out = []
    for u in units:
        bf = os.path.join(VERIF, "units", u + ".breaks")
        if not os.path.exists(bf): continue
        for ln in open(bf):
            ln = ln.rstrip("\n")
            if not ln.strip() or ln.startswith("#"): continue
            rel, sedexpr, desc = ln.split("\t")
            scratch = tempfile.mkdtemp(prefix="verif_selftest_")
            try:
                dst = os.path.join(scratch, "src")
                shutil.copytree(os.path.join("/repo/oxidize-pdf-core/src"), dst)
                before = open(os.path.join(dst, rel), "rb").read()
                subprocess.run(["sed", "-i", sedexpr, os.path.join(dst, rel)], check=True)
                if open(os.path.join(dst, rel), "rb").read() == before:
                    out.append(dict(unit=u, change=desc, result="break-did-not-apply")); continue
                env = dict(os.environ); env["VERIF_REPO_SRC"] = dst; env["VERIF_BUILD_SUFFIX"] = "_selftest"
                p = subprocess.run([sys.executable, os.path.join(HERE, "check.py"), "--unit", u], capture_output=True, text=True, env=env, timeout=1200)
                last = [l for l in p.stdout.split("\n") if l.startswith("unit ")][-1:] or [""]
                m = re.search(r"(\d+) failures", last[0])
                und = "UNDECIDED" in p.stdout
                res = "detected" if (m and int(m.group(1)) > 0 and not und) else ("undecided" if und else "MISSED")
                obl = [l for l in p.stdout.split("\n") if l.startswith("error")][:2]
                out.append(dict(unit=u, change=desc, result=res, failing=obl))
            finally:
                shutil.rmtree(scratch, ignore_errors=True)
    return out


def decide(prop, tier, seed):
    t0 = time.time()
    cfg = registry.PROPS[prop]
    known = load_known()
    results = []
    units = list(cfg.get("verus", []))
    with cf.ThreadPoolExecutor(max_workers=8) as ex:
        futs = {ex.submit(run_verus_unit, u, tier): u for u in units}
        for fu in cf.as_completed(futs): results.append(fu.result())
    results.sort(key=lambda r: units.index(r["unit"]))
    kres = None
    if cfg.get("kani"):
        import kani_engine
        kres = kani_engine.run(prop, cfg["kani"], tier)
        results.append(kres)
    stand = []
    if cfg.get("standins"):
        import standins
        stand = standins.run(prop, cfg["standins"], tier)
    # ---- classify
    violations, knowns, undecided = [], [], []
    for r in results:
        if r.get("undecided"): undecided.append(f"{r['unit']}: {r['undecided']}")
        for f in r.get("failures", []):
            f.setdefault("engine", r.get("engine", "verus"))
            k = match_known(prop, f, known)
            if k: knowns.append((k, f))
            else: violations.append(f)
    for s in stand:
        for f in s.get("failures", []):
            f.setdefault("engine", s.get("kind", "enumeration"))
            k = match_known(prop, f, known)
            if k: knowns.append((k, f))
            else: violations.append(f)
        if s.get("undecided"): undecided.append(f"{s['name']}: {s['undecided']}")
    obligations = [o for r in results for o in r.get("obligations", [])]
    known_fn = {(f["unit"], f["function"]) for (_, f) in knowns}
    claimed = [o for o in obligations if tuple(o["id"].split("::", 1)) not in known_fn]
    discharged = [o for o in claimed if o["ok"]]
    out_lines = []
    seenk = set()
    for (k, f) in knowns:
        if k["id"] in seenk: continue
        seenk.add(k["id"])
        out_lines.append(f"KNOWN-FINDING: property={prop} {k['what']}")
    exit_code = 0
    replay_paths = []
    if violations:
        import witness as wit
        for f in violations:
            w = None
            if f.get("kani_playback"):
                w = dict(found=True, kind="kani-concrete-playback", test=f["kani_playback"])
            try:
                if w is None: w = wit.search(prop, f)
            except Exception as e: w = None; f["witness_error"] = str(e)
            path = write_replay(prop, f, w)
            replay_paths.append(path)
            tail = "" if (w and w.get("found")) else " no-failing-input-found"
            out_lines.append(f"VIOLATION property={prop} replay={path}{tail}")
            out_lines.append(f"  obligation: {f.get('unit')}::{f.get('function')}: {f.get('message')} at {f.get('src') or ('assembled line %s' % f.get('line'))}")
        exit_code = 1
    elif undecided:
        for u in undecided: out_lines.append(f"UNDECIDED property={prop} {u}")
        exit_code = 2
    st = self_tests(units) if tier == "thorough" else []
    for t in st:
        if t["result"] != "detected":
            out_lines.append(f"SELF-TEST {t['result']}: unit {t['unit']}: {t['change']}")
    # ---- evidence
    trusted = sorted({a for r in results for a in r.get("assumptions", [])})
    fnlist = [f"{f['file']}:{f['line']} {f['path']}" + (" (block)" if f.get("kind") == "block" else "")
              for r in results for f in r.get("functions", [])]
    samples = [dict(obligation=o["id"], discharged=o["ok"], solver_us=o.get("smt_us"), engine=o.get("engine", "verus/z3"))
               for o in claimed[:12]]
    ev = dict(
        property_id=prop, tier=tier, seed=seed, level="proof",
        coverage=dict(
            obligations=len(claimed), discharged=len(discharged),
            checker_cmd="; ".join(r.get("cmd", "") for r in results if r.get("cmd")),
            trusted_base=trusted + list(cfg.get("trusted", [])),
            functions_under_contract=fnlist,
            units=[dict(unit=r["unit"], engine=r.get("engine"), obligations=len(r.get("obligations", [])),
                        discharged=sum(1 for o in r.get("obligations", []) if o["ok"]),
                        vacuity_guards=r.get("vacuity_guards", 0), wall_s=round(r.get("wall_s", 0), 2),
                        solver_ms=r.get("smt_ms", 0), undecided=r.get("undecided"),
                        rewrites_applied=r.get("rewrites", [])) for r in results],
            per_obligation=[dict(id=o["id"], ok=o["ok"], solver_us=o.get("smt_us"), mode=o.get("mode")) for o in obligations],
            known_finding_obligations=[dict(id=k["id"], obligation=f"{f['unit']}::{f['function']}: {f['message']}") for (k, f) in knowns],
            stand_ins=[{k: v for k, v in s.items() if k != "failures"} for s in stand],
            not_decided=cfg.get("not_decided", ""),
            deliberate_break_self_tests=st,
            samples=samples, exhaustive=False,
        ),
        assumptions=list(registry.COMMON_ASSUMPTIONS) + list(cfg.get("assumptions", [])),
        wall_s=round(time.time() - t0, 2), violations=len(violations),
    )
    json.dump(ev, open(os.path.join(EVID, prop + ".json"), "w"), indent=1)
    for l in out_lines: print(l)
    print(f"[{prop}] tier={tier} units={len(results)} obligations={len(claimed)} discharged={len(discharged)} "
          f"known={len(seenk)} violations={len(violations)} undecided={len(undecided)} wall={ev['wall_s']}s")
    return exit_code


def replay(prop, path):
    import witness as wit
    r = json.load(open(path))
    print(json.dumps({k: r[k] for k in ("property", "obligation", "source")}, indent=1))
    w = r.get("witness")
    if w and w.get("found"):
        ok = wit.replay(prop, w)
        print("replay on real code:", "REPRODUCED" if not ok else "not reproduced")
        return 1 if not ok else 0
    print("no concrete input recorded (no-failing-input-found); re-running the unit:")
    unit = r["obligation"].split("::")[0]
    res = run_verus_unit(unit, "quick") if os.path.exists(os.path.join(VERIF, "units", unit + ".vu")) else None
    if res is None:
        print(r.get("verifier_output")); return 1
    fs = [f for f in res["failures"] if r["obligation"].startswith(f"{f['unit']}::{f['function']}")]
    for f in fs: print(f["rendered"])
    print("obligation still fails" if fs else "obligation now discharged")
    return 1 if fs else 0


def main():
    ap = argparse.ArgumentParser()
    ap.add_argument("prop", nargs="?")
    ap.add_argument("--tier", default=os.environ.get("VERIF_TIER", "quick"))
    ap.add_argument("--replay")
    ap.add_argument("--unit")
    ap.add_argument("-v", action="store_true")
    a = ap.parse_args()
    seed = int(os.environ.get("VERIF_SEED", "0") or 0)
    if a.unit:
        r = run_verus_unit(a.unit, a.tier)
        for f in r["failures"]:
            print(f["rendered"])
            print("   -> fn", f["function"], "src", f["src"])
        if r.get("undecided"):
            print("UNDECIDED:", r["undecided"])
            for d in r.get("undecided_detail", []): print(d)
        ok = sum(1 for o in r["obligations"] if o["ok"])
        print(f"unit {a.unit}: {ok}/{len(r['obligations'])} obligations, {len(r['failures'])} failures, vac={r.get('vacuity_guards')}, {r['wall_s']:.1f}s")
        if a.v:
            for o in r["obligations"]: print("  ", o)
        sys.exit(0 if not r["failures"] and not r.get("undecided") else 1)
    if a.replay:
        sys.exit(replay(a.prop, a.replay))
    sys.exit(decide(a.prop, a.tier, seed))


if __name__ == "__main__":
    main()
