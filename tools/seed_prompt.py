#!/usr/bin/env python3
"""seed_prompt.py <PROP> [n]: print the brief given to an independent sub-agent (property text + scratch worktree only)."""
import json, sys
prop = sys.argv[1]; n = int(sys.argv[2]) if len(sys.argv) > 2 else 2
rec = next(json.loads(l) for l in open('/verif/properties.jsonl') if json.loads(l)['id'] == prop)
wt = f"/tmp/seed/{prop}"; out = f"/tmp/seed/{prop}_out"
print(f"""You are helping to evaluate how well a verification effort detects regressions in the Rust PDF library bzsanti/oxidizePdf (crate oxidize-pdf, directory oxidize-pdf-core). You work ONLY inside your own scratch git worktree of the repository: {wt}  (never touch /repo or /verif, never read /verif). Write results to {out}/.

The semantic property under study (this JSON record is all you are given about it):

{json.dumps(rec, indent=1, ensure_ascii=False)}

TASK. Produce {n} DIFFERENT, independent source changes ("seeded regressions") to the library, each of which
  (a) BREAKS the property above for some inputs/histories (a real semantic regression a user of the property would care about),
  (b) still compiles, and still passes the existing test suite (the suite has ~9260 tests; about 30 font-fixture tests fail on the pristine tree in this sandbox because fixtures are stubbed - those do not count),
  (c) is REALISTIC: the kind of change a maintainer could plausibly make (a refactor, an optimisation, a 'simplification', a bug-fix gone wrong, an off-by-one in a boundary, a dropped special case, a reordered pair of statements), not sabotage that is obvious at a glance, and
  (d) needs something SPECIFIC to manifest - an unusual input, a boundary value, a multi-step sequence of operations, a particular combination of options, or two cooperating sites that each look fine alone - NOT something ordinary use or the existing tests would expose at once.
Make the {n} changes differ in the mechanism/function they touch (look at the 'anchors' in the record for where the property lives, but you may pick any code the property depends on). Each change is a separate patch against the pristine worktree (not cumulative). Keep each patch small (typically 1-25 changed lines). Do not edit or delete existing tests. Do not add cfg flags, env-var switches or time bombs.

For each change k = 1..{n} deliver in {out}/<k>/ :
  patch.diff   - `git diff` against the pristine worktree (must apply with `git apply` at the worktree root);
  demo.rs      - a self-contained Rust INTEGRATION test file (it will be copied to oxidize-pdf-core/tests/seed_demo.rs and run with
                 `cargo test -p oxidize-pdf --test seed_demo --offline`), using only the crate's public API (crate name in code: oxidize_pdf), with one or more #[test] fns
                 that PASS on the pristine worktree and FAIL with the patch applied, demonstrating the property violation;
  meta.json    - {{"summary": what was changed and why it looks plausible, "needs_to_manifest": the specific input/sequence/combination needed,
                 "files_changed": [...], "how_verified": the commands you ran and what you saw}}.

HOW TO WORK (sandbox: no network; 16 cores shared with other jobs).
  export CARGO_NET_OFFLINE=true CARGO_BUILD_JOBS=6 CARGO_TARGET_DIR={wt}/target
  - Read the code first; choose candidate changes; apply one; `cargo build -p oxidize-pdf --offline`.
  - Run the tests of the modules you touched (`cargo test -p oxidize-pdf --lib <module_path> --offline`) and the integration tests that look related (oxidize-pdf-core/tests/*.rs, `cargo test -p oxidize-pdf --test <name> --offline`). If an existing test fails, the change is not acceptable: choose a subtler one.
  - Once per finished change also run the whole library unit-test target: `cargo test -p oxidize-pdf --lib --offline 2>&1 | tail -5` (several minutes). (The full workspace suite will be re-run by me afterwards; you need not run every integration test, but run the ones related to the code you touched.)
  - Write the demo, confirm it passes on pristine (`git stash` / `git checkout -- .` to get pristine) and fails with the patch.
  - Leave the worktree pristine (git checkout -- . ; remove oxidize-pdf-core/tests/seed_demo.rs) when you finish. Do NOT delete {wt}/target (I reuse it), do not create other large directories.
Final answer: a short list of the {n} changes (one paragraph each) and any candidate you tried that the existing tests caught.""")
