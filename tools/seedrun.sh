#!/bin/sh
# development helper: seedrun.sh <PROP> <k> [tier]  -- apply a seeded change to /repo, run the property's check, undo the change.
# output: /tmp/seed/<PROP>_out/<k>/check.log   (refuses to run when /repo has uncommitted changes)
P=$1; K=$2; T=${3:-quick}; OUT=/tmp/seed/${P}_out/$K
[ -d /verif/seeded/$P-$K ] && [ ! -d $OUT ] && OUT=/verif/seeded/$P-$K
if [ -n "$(git -C /repo status --porcelain --untracked-files=no)" ]; then echo "/repo not clean"; exit 2; fi
PATCH=$OUT/patch.diff; [ -f $OUT/patch_rebased.diff ] && PATCH=$OUT/patch_rebased.diff
git -C /repo apply $PATCH || { echo "PATCH DOES NOT APPLY"; exit 2; }
cd /verif; ./check $P --tier $T > /tmp/seedrun_$P-$K.log 2>&1; rc=$?
git -C /repo checkout -- .
cp /tmp/seedrun_$P-$K.log $OUT/check.log 2>/dev/null
echo "== $P-$K exit $rc"; grep -E "^(VIOLATION|KNOWN-FINDING|UNDECIDED|HELD)" /tmp/seedrun_$P-$K.log | cut -c1-260
# evidence written during a seeded run must not be kept
git -C /verif checkout -- evidence 2>/dev/null
