#!/bin/sh
# development helper: confirm a seeded change in its scratch worktree (outside /repo and /verif):
#   confirm_seed.sh <PROP> <k>   -> /tmp/seed/<PROP>_out/<k>/confirm.log
# steps: patch applies; crate builds; demo fails with patch and passes without; full nextest suite with the patch
# fails only tests that also fail on the pristine worktree (baseline list computed once per worktree).
P=$1; K=$2; WT=/tmp/seed/$P; OUT=/tmp/seed/${P}_out/$K; LOG=$OUT/confirm.log
export CARGO_TARGET_DIR=$WT/target CARGO_NET_OFFLINE=true
cd $WT || exit 2
git checkout -q -- . ; rm -f oxidize-pdf-core/tests/seed_demo.rs
{
echo "== seed $P/$K $(date)"
# the pristine tree's own failure list (font-fixture tests whose fixtures are emptied in this sandbox, timing heuristics) is the same in
# every worktree: computed once (full suite on pristine worktrees and on /repo) and reused
if [ -f /tmp/seed/baseline_global.txt ] && [ ! -f /tmp/seed/${P}_out/baseline_nextest_failed.txt ]; then cp /tmp/seed/baseline_global.txt /tmp/seed/${P}_out/baseline_nextest_failed.txt; fi
if [ ! -f /tmp/seed/${P}_out/baseline_nextest_failed.txt ]; then
  echo "-- baseline full suite on pristine worktree"
  cargo nextest run --workspace --no-fail-fast --offline --test-threads 8 > /tmp/seed/${P}_out/baseline_nextest.log 2>&1
  grep -E "^\s+(FAIL|TIMEOUT|SIGABRT|SIGSEGV)" /tmp/seed/${P}_out/baseline_nextest.log | sed -E 's/.*\([0-9 ]+\/[0-9]+\) *//' | sort -u > /tmp/seed/${P}_out/baseline_nextest_failed.txt
  tail -3 /tmp/seed/${P}_out/baseline_nextest.log
fi
cp $OUT/demo.rs oxidize-pdf-core/tests/seed_demo.rs
echo "-- demo on pristine"
cargo test -p oxidize-pdf --test seed_demo --offline 2>&1 | grep -E "^test result|error\[" | head -3
git apply $OUT/patch.diff && echo "-- patch applied" || { echo "PATCH DOES NOT APPLY"; exit 1; }
cargo build -p oxidize-pdf --offline 2>&1 | tail -1
echo "-- demo with patch"
cargo test -p oxidize-pdf --test seed_demo --offline 2>&1 | grep -E "^test result|error\[" | head -3
rm -f oxidize-pdf-core/tests/seed_demo.rs
echo "-- full suite with patch"
cargo nextest run --workspace --no-fail-fast --offline --test-threads 8 > $OUT/confirm_nextest.log 2>&1
tail -3 $OUT/confirm_nextest.log
grep -E "^\s+(FAIL|TIMEOUT|SIGABRT|SIGSEGV)" $OUT/confirm_nextest.log | sed -E 's/.*\([0-9 ]+\/[0-9]+\) *//' | sort -u > $OUT/confirm_failed.txt
echo "-- failures not in baseline:"
comm -23 $OUT/confirm_failed.txt /tmp/seed/${P}_out/baseline_nextest_failed.txt
echo "== done"
} > $LOG 2>&1
git checkout -q -- . ; rm -f oxidize-pdf-core/tests/seed_demo.rs
