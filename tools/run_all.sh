#!/bin/sh
# development helper: run every claimed check (quick) and print exit codes
cd "$(dirname "$0")/.."
for p in $(python3 -c "import json;print(' '.join(c['property_id'] for c in json.load(open('MANIFEST.json'))['checks']))"); do
  ./check $p --tier ${1:-quick} > /tmp/runall_$p.log 2>&1; echo "$p exit=$? $(tail -1 /tmp/runall_$p.log)"
done
