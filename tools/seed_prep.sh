#!/bin/sh
# development helper: seed_prep.sh <PROP>  -> scratch worktree /tmp/seed/<PROP> (HEAD of /repo, detached) + /tmp/seed/<PROP>_out
P=$1
git -C /repo worktree add --detach /tmp/seed/$P HEAD >/dev/null 2>&1 || { echo "worktree exists?"; }
mkdir -p /tmp/seed/${P}_out
echo /tmp/seed/$P
