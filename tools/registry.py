"""Which units decide which property. Verus units are overlay files in /verif/units; Kani harness names live in /verif/hooks."""

COMMON_ASSUMPTIONS = [
    "machine integers as specified by Rust: Verus checks every + - * / << for overflow; casts are two's-complement truncation (rule R9)",
    "usize is 64 bit (global size_of usize == 8)",
    "allocation never fails; slice/Vec lengths <= isize::MAX",
    "vstd's specifications of std (Vec, HashMap, VecDeque, Option, slices) are trusted",
    "the Verus/Z3 and Kani/CBMC tool chains are trusted",
    "extraction rewrites listed under coverage.units[].rewrites_applied preserve behaviour (rules D1-R14, A1, S in DESIGN.md 2.1)",
]

K = lambda name, file, fn: dict(name=name, target=("oxidize-pdf-core/src/" + file, fn))

PROPS = {
    "C01": dict(
        verus=["tokenizer", "runlength", "gss", "xrefstream", "glyf", "guards", "predictor", "pngrows", "flatten", "bounded", "asciihex", "ascii85", "rotate", "pngunfilter", "cmaprange", "readlimited", "charstring", "lzw"],
        standins=["a85hex", "hostile-inputs"],
        kani=[K("c01_hex_digit_value", "parser/filters.rs", "hex_digit_value"),
              K("c01_calculate_offset_9_bytes_no_panic", "text/cmap.rs", "calculate_offset")],
        level_text="panic-freedom (index, slice range, overflow, division), termination and output bounds proved per listed function for all inputs; the whole-program 'never crashes' claim is NOT made",
        not_decided="the I/O shells (reader.rs, xref.rs parse/recovery, object_stream.rs, page_tree.rs), LZW dictionary growth, CCITT/JBIG2/DCT decoders, text extraction, allocation sizes, wall-clock bounds",
    ),
    "C03": dict(
        verus=["xrefstream", "strings", "names", "mainwriter", "xrefwriter"],
        standins=["objects", "writer-configs"],
        kani=[K("c03_bytes_needed", "writer/xref_stream_writer.rs", "XRefStreamWriter::bytes_needed")],
        not_decided="text of classic xref entries ({:010} formatting of the recorded offsets), startxref, /Size, reference resolution, strict-parser acceptance (write_document's I/O sequence); buffered (object-stream) objects; names (see C30)",
    ),
    "C09": dict(
        verus=["strings", "incr", "names", "mainwriter", "lexer"],
        standins=["fmt", "objects"],
        not_decided="integers/reals (number text), arrays/dictionaries nesting, object streams, names (C30), the ISO-reader lemma for EOL handling",
    ),
    "C12": dict(
        verus=["glyf", "charstring"],
        standins=["fontsubset", "cffindex"],
        not_decided="proved per function: component closure, glyph-index remapping, instruction stripping (result is the same glyph description with instructionLength 0 / WE_HAVE_INSTRUCTIONS cleared), glyf/loca assembly (every loca entry decodes to the real, even start offset of its glyph), hmtx rebuild (entry k = metrics of the original glyph that became glyph k). Not proved: that these compose to 'same flattened outline' (needs a glyf renderer as spec: covered only by the bounded stand-in fontsubset, synthetic fonts with an independent glyf reader), hhea/maxp/head rebuild and the table directory (stand-in only), cmap glyph selection. CFF: the charstring desubroutiniser is under contract (unit charstring: Type 2 number decoding and subroutine bias against Technical Note #5177, operand-stack bookkeeping invariant, hint-mask width = ceil(stems declared incl. the implicit vstemhm / 8) and fixed after the first mask, every non-call byte copied verbatim, termination through the depth bound) and so is the INDEX writer build_cff_index / write_offset (offset k = 1 + total length of the items before k, offSize wide enough); NOT that the inlined subroutine bodies are the right ones end to end (subr_item / INDEX lookup is a stub), nor the CFF table rebuild (Top DICT, charset, FDSelect, offsets) of cff_subsetter.rs, which has neither a contract nor a stand-in",
    ),
    "C04": dict(
        verus=["prevmerge"],
        standins=["revisions"],
        not_decided="that parse_primary_with_options builds each revision's table faithfully from bytes; the recovery scan that produces the headers; object-stream extraction and the reader's object cache (get_compressed_object: covered only by the bounded stand-in `revisions`)",
    ),
    "C10": dict(
        verus=["strings", "lexer"],
        standins=["objects", "notes-history"],
        kani=[K("c10_text_kernel_ascii", "text/encoding.rs", "winansi_decode_char (reader's non-BOM text path)"),
              K("c10_text_kernel_non_ascii", "text/encoding.rs", "winansi_decode_char (reader's non-BOM text path)")],
        not_decided="the glue: that decode_text_string is that per-byte map and that each emission site emits those bytes (String/iterator code outside both verifiers); UTF-16BE/BOM path of incremental_text_notes::pdf_text",
    ),
    "C24": dict(
        verus=["pngunfilter", "alphasplit"],
        standins=["png-grid", "image-alpha"],
        kani=[K("c24_paeth_predictor_png_spec", "graphics/png_decoder.rs", "paeth_predictor")],
        not_decided="inflate (dependency), bit-depth expansion, palettes, tRNS, interlace, XObject / SMask dictionary assembly and its Flate encoding (stand-in image-alpha only); proved: unfilter_row against the PNG filter definitions, row geometry of decode_image_data without overflow, separate_alpha (colour and alpha planes are the de-interleaved samples), from_rgba_data / from_gray_data accept exactly width x height pixels and split them",
    ),
    "C25": dict(
        standins=["enc-tables"],
        kani=[K("c25_winansi_encode_char_annexd", "text/encoding.rs", "winansi_encode_char"),
              K("c25_winansi_decode_char_contract", "text/encoding.rs", "winansi_decode_char"),
              K("c25_winansi_inverse", "text/encoding.rs", "winansi_encode_char/winansi_decode_char"),
              K("c25_macroman_encode_char_annexd", "text/encoding.rs", "macroman_encode_char")],
        not_decided="TextEncoding::{encode, encode_strict, decode} (str::chars/String: outside both verifiers); StandardEncoding/PDFDocEncoding tables",
    ),
    "C30": dict(
        verus=["names", "incr", "lexer"],
        standins=["fmt", "opnames", "objects"],
        level_text="the four dictionary-level name emission sites of the main writer and the incremental writer's write_name are proved to emit an ISO name token that decodes to the given bytes; content-stream operator names (/{name} Do through writeln!/format!) have NO deductive unit",
        not_decided="operator names in content streams (graphics ops, page.rs: formatted text outside both verifiers), resource dictionary assembly, form field names, that the library's own lexer decodes #XX to the same string for non-ASCII bytes",
    ),
    "C28": dict(
        verus=["outline", "outlinelinks"],
        trusted=["outline_item_to_dict's link fields (Parent/Prev/Next always as given, First/Last only with children): transcribed stub in unit outlinelinks; its /Count is proved in unit outline"],
        not_decided="destinations resolve to the authored page (page id bookkeeping in write_document), named-destination name trees, id reservation loop of write_outline_tree (count_items nested fn), title strings (C09/C10)",
    ),
    "C17": dict(
        verus=["incr", "prevmerge"],
        standins=["fmt", "notes-history", "revisions"],
        not_decided="write_trailer text, /ID computation (md5), that the chain parses in a reader, incremental_form_fill / incremental_text_notes field-tree resolution; termination of write_object/write_dictionary (recursion through an opaque dictionary) is not proved",
    ),
    "C18": dict(
        verus=["flatten", "inherit"],
        standins=["pagetree"],
        level_text="flatten_page_tree terminates, returns at most MAX_PAGES references and no reference twice, for ANY behaviour of the reader (cyclic, shared, lying trees); collect_inherited_attributes returns exactly the inheritable attributes the page lacks, each from the NEAREST ancestor on the /Parent chain (any object graph, cyclic chains included); document order is covered only by the bounded stand-in pagetree",
        not_decided="document order equals the DFS order of the real tree (stand-in only), find_page_in_tree's index arithmetic, page_count fallbacks",
    ),
    "C05": dict(
        verus=["rc4", "objkey"],
        standins=["writer-configs"],
        kani=[K("c05_perm_print", "encryption/permissions.rs", "Permissions::set_print/can_print"),
              K("c05_perm_modify", "encryption/permissions.rs", "Permissions::set_modify_contents/can_modify_contents"),
              K("c05_perm_copy", "encryption/permissions.rs", "Permissions::set_copy/can_copy"),
              K("c05_perm_annot", "encryption/permissions.rs", "Permissions::set_modify_annotations/can_modify_annotations"),
              K("c05_perm_forms", "encryption/permissions.rs", "Permissions::set_fill_forms/can_fill_forms"),
              K("c05_perm_access", "encryption/permissions.rs", "Permissions::set_accessibility/can_access_for_accessibility"),
              K("c05_perm_assemble", "encryption/permissions.rs", "Permissions::set_assemble/can_assemble"),
              K("c05_perm_hq", "encryption/permissions.rs", "Permissions::set_print_high_quality/can_print_high_quality"),
              K("c05_perm_new_and_flags", "encryption/permissions.rs", "Permissions::new/from_flags/flags/all")],
        not_decided="AES paths (dependency crates), password->key derivation end to end, unlock_with_password, decrypt_object_if_needed, the trailer /Encrypt clause of write_xref_stream",
    ),
    "C13": dict(
        verus=["warray", "cmaprange", "cidgid"],
        standins=["embedded-font"],
        level_text="the /W run-grouping block of generate_width_array: expanding the emitted array (ISO 32000-1 9.7.4.3) gives back exactly the code->width map it was built from; the fill block of generate_cid_to_gid_map: bytes 2c, 2c+1 of the stream are the glyph of code point c (high byte first) for every mapped c up to the highest one and 0 otherwise (ISO 32000-1 Table 117); the bfrange destination arithmetic of the ToUnicode reader (cmaprange); the rest of C13 is not decided deductively",
        not_decided="ToUnicode text generation (format!/String code: stand-in embedded-font only), the choice of max_unicode in generate_cid_to_gid_map (iterator adapters; the block takes max_unicode <= 0xFFFF as a precondition), glyph presence, the widths returned by get_glyph_widths, anything an independent extractor would check",
    ),
    "C16": dict(
        verus=["rotate", "pagerange", "inherit", "pagecopy"],
        standins=["pageops"],
        kani=[K("c16_from_degrees_all_i32", "operations/rotate.rs", "RotationAngle::from_degrees/to_degrees"),
              K("c16_combine", "operations/rotate.rs", "RotationAngle::combine")],
        not_decided="that output page k is input page order[k] with the same content, resources and boxes (Page::from_parsed_with_content; file I/O) is covered only by the bounded stand-in pageops; a non-zero MediaBox origin and the CropBox are lost (known finding)",
    ),
    "C23": dict(
        verus=["rc4", "objkey", "alg2b"],
        standins=["crypto-ref"],
        kani=[K("c05_perm_new_and_flags", "encryption/permissions.rs", "Permissions::new/from_flags/flags/all")] +
             [K(f"c23_pad_password_{n}", "encryption/standard_security.rs", "StandardSecurityHandler::pad_password") for n in (0, 1, 31, 32, 33, "split2", "split3", "split4")],
        not_decided="AES-CBC/PKCS#7 (aes, cbc crates), MD5/SHA (md5, sha2 crates); Algorithm 2 (compute_key_from_padded) is proved against the ISO definition with md5 uninterpreted; Algorithm 2.B (compute_hash_r6_algorithm_2b) is proved equal to the ISO 32000-2 definition (alg2b: 64 x (password + K + U[0..48]) zero-padded, AES-128-CBC without padding under K[0..16] / K[16..32], hash chosen by the first 16 bytes of E modulo 3 -- the byte-sum shortcut is justified by a lemma --, at least 64 rounds, stop when the last byte of E <= rounds - 32, first 32 bytes) with SHA-2 and AES uninterpreted; Algorithm 3 (compute_owner_hash) and Algorithms 4/5 (compute_user_hash_from_padded, which calls the proved Algorithm 2) are proved equal to their ISO 32000-1 definitions with md5 uninterpreted, RC4 as specified in unit rc4 and the password padding as proved by the Kani harnesses; Algorithms 8-10 (R5/R6 entries) are compared with an independent transcription only by the bounded stand-in crypto-ref",
    ),
    "C26": dict(
        verus=["cmaprange"],
        standins=["cmap"],
        kani=[K(f"c26_increment_be_{n}", "text/cmap.rs", "increment_be") for n in (1, 2, 3, 4)] +
             [K(f"c26_calculate_offset_{n}", "text/cmap.rs", "calculate_offset") for n in (1, 2, 3, 4)] +
             [K(f"c26_contains_{n}", "text/cmap.rs", "CodeRange::contains") for n in (1, 2, 3, 4)],
        not_decided="CMap tokenizer/parser, bfrange array form, code-space rejection and the ToUnicode builder are covered only by the bounded stand-in cmap; CodeRange::contains is proved numeric for 1..4-byte codes (Kani); the inline range-membership test of CMap::map (the same slice comparison) has no contract of its own",
    ),
    "C07": dict(
        verus=["runlength", "pngrows", "predictor", "bounded", "asciihex", "ascii85", "chainorder", "lzw"],
        standins=["a85hex-roundtrip", "filters-roundtrip"],
        kani=[K("c07_paeth_predictor_png_spec", "parser/filters.rs", "paeth_predictor"),
              K("c07_lzw_read_bits", "parser/filters.rs", "LzwBitReader::read_bits")],
        not_decided="LZW: the body of decode_lzw_with_limit is proved equal to the recursive specification lzw_run (ISO 32000-1 7.4.4.2 / TIFF 6.0: MSB-first codes, 9..12 bit schedule with and without EarlyChange, clear-table, EOD, KwKwK case) for every input; the bit reader's contract is discharged by Kani on a 4-byte window (translation over byte_pos is argued, not proved); the reading of /EarlyChange from the parameter dictionary (Option combinators) is outside the block. Flate is a dependency (stand-in filters-roundtrip only); CCITT/JBIG2/DCT; TIFF predictor 2 is a known finding (passed through undecoded)",
    ),
    "C08": dict(
        verus=["runlength", "bounded", "streamlimit", "asciihex", "ascii85", "readlimited"],
        standins=["a85hex"],
        not_decided="Flate/LZW bounded paths; ASCIIHex/ASCII85 limits; decode_stream_with_limit glue pending",
    ),
    "C21": dict(
        verus=["tokenizer", "showtext", "serializeops"],
        standins=["fmt", "content"],
        kani=[K("c21_finite_or_zero_all_f64", "graphics/color.rs", "finite_or_zero")],
        not_decided="numeric operands and formatting, operator vocabulary dispatch, marked-content property lists, TJ arrays",
    ),
    "C27": dict(
        verus=["pagelabels", "labeldict"],
        standins=["letters", "labels"],
        not_decided="decimal formatting (u32::to_string), to_uppercase, range lookup and number-tree serialisation pending",
    ),
    "C29": dict(
        verus=["lru"],
        standins=["lru", "objcache"],
        not_decided="concurrency itself: ObjectCache's methods are proved to be single LruCache operations under the lock after rule R27 (std RwLock semantics trusted); that every concurrent history is a sequential one is an argument in DESIGN.md, not a proof",
        trusted=["std::collections::VecDeque::retain: mask-style assume_specification (DESIGN 2.1)"],
    ),
}
