"""Which units decide which property. Verus units are overlay files in /verif/units; Kani harness names live in /verif/hooks."""

COMMON_ASSUMPTIONS = [
    "machine integers as specified by Rust: Verus checks every + - * / << for overflow; casts are two's-complement truncation (rule R9)",
    "usize is 64 bit (global size_of usize == 8)",
    "allocation never fails; slice/Vec lengths <= isize::MAX",
    "vstd's specifications of std (Vec, HashMap, VecDeque, Option, slices) are trusted",
    "the Verus/Z3 and Kani/CBMC tool chains are trusted",
    "extraction rewrites listed under coverage.units[].rewrites_applied preserve behaviour (rules D1-R14, A1, S in DESIGN.md 2.1)",
]

PROPS = {
    "C07": dict(
        verus=["runlength"],
        not_decided="LZW, CCITT, Flate (dependency), ASCIIHex/ASCII85 (iterator adapters; outside Verus), PNG/TIFF predictors pending",
    ),
    "C08": dict(
        verus=["runlength"],
        not_decided="Flate/LZW bounded paths; ASCIIHex/ASCII85 limits; decode_stream_with_limit glue pending",
    ),
    "C21": dict(
        verus=["tokenizer"],
        not_decided="numeric operands and formatting, operator vocabulary dispatch, marked-content property lists, TJ arrays",
    ),
    "C27": dict(
        verus=["pagelabels"],
        not_decided="decimal formatting (u32::to_string), to_uppercase, range lookup and number-tree serialisation pending",
    ),
    "C29": dict(
        verus=["lru"],
        not_decided="ObjectCache's RwLock wrapper (concurrency) is an argument in DESIGN.md, not a proof",
        trusted=["std::collections::VecDeque::retain: mask-style assume_specification (DESIGN 2.1)"],
    ),
}
