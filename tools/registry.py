"""Which units decide which property. Verus units are overlay files in /verif/units; Kani harness names live in /verif/hooks."""

COMMON_ASSUMPTIONS = [
    "machine integers as specified by Rust: Verus checks every + - * / << for overflow; casts are two's-complement truncation (rule R9)",
    "usize is 64 bit (global size_of usize == 8)",
    "allocation never fails; slice/Vec lengths <= isize::MAX",
    "vstd's specifications of std (Vec, HashMap, VecDeque, Option, slices) are trusted",
    "the Verus/Z3 and Kani/CBMC tool chains are trusted",
    "extraction rewrites listed under coverage.units[].rewrites_applied preserve behaviour (rules D1-R14, A1, S in DESIGN.md 2.1)",
]

PROPS = {
    "C29": dict(
        verus=["lru"],
        not_decided="ObjectCache's RwLock wrapper (concurrency) is an argument in DESIGN.md, not a proof",
        trusted=["std::collections::VecDeque::retain: mask-style assume_specification (DESIGN 2.1)"],
    ),
}
