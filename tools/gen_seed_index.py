#!/usr/bin/env python3
"""regenerate /verif/seeded/INDEX.md from the meta.json files of the confirmed seeded changes"""
import glob, json, os
rows = []
for m in sorted(glob.glob("/verif/seeded/*/meta.json")):
    d = json.load(open(m))
    rows.append(d)
out = ["# Seeded changes (independent sub-agents; each confirmed in a scratch worktree outside /repo and /verif)", "",
       "Every change below compiles, passes the existing suite (no failure outside the pristine worktree's own failure list), and",
       "comes with a demonstration (`demo.rs`, an integration test) that passes on the pristine tree and fails with the change.",
       "`caught by` names the check that reports it when the patch is applied to /repo: a Verus/Kani obligation (deductive), a",
       "stand-in (bounded enumeration, labelled as such in the evidence), or `NOT CAUGHT`.", "",
       "| seed | property | what changes | needs to manifest | caught by |", "|---|---|---|---|---|"]
def cell(s, n):
    s = (s or "").replace("|", "\\|").replace("\n", " ")
    return s if len(s) <= n else s[:n - 1] + "…"
for d in rows:
    out.append(f"| {d['seed']} | {d['property']} | {cell(d.get('summary'), 330)} | {cell(d.get('needs_to_manifest'), 260)} | {cell(d.get('caught_by'), 400)} |")
open("/verif/seeded/INDEX.md", "w").write("\n".join(out) + "\n")
print(len(rows), "seeds")
