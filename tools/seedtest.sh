#!/bin/sh
# development helper: seedtest.sh <patch.diff> <unit> [tail-lines]  -- runs a Verus unit against a scratch copy of /repo's src with a patch applied
set -e
rm -rf /tmp/seedsrc && mkdir -p /tmp/seedsrc/oxidize-pdf-core && cp -r /repo/oxidize-pdf-core/src /tmp/seedsrc/oxidize-pdf-core/src
( cd /tmp/seedsrc && patch -p1 -s < "$1" )
VERIF_REPO_SRC=/tmp/seedsrc/oxidize-pdf-core/src VERIF_BUILD_SUFFIX=_seedtest python3 /verif/tools/check.py --unit $2 2>&1 | tail -${3:-25}
rm -rf /tmp/seedsrc
