"""Assemble one Verus input file from an overlay (`/verif/units/<unit>.vu`) and the current sources under /repo.

Overlay syntax (lines starting with `//@`):

  //@ unit <name> property=<id>[,<id>..] [min_obligations=<n>] [rlimit=<n>]
  //@ fn <file> <Type::name|name> [ret=<binder>] [rules=R1,R9,..] [trait=<Trait>] [rename=<new>] [novac]
  //@ block <file> <Type::name|name> name=<synthetic fn name>      (followed by `first`, `last`, `params`, `tail` sections)
  //@ item <file> <struct|enum|const|static|type> <Name> [rules=..]
     sections inside fn/block (each runs to the next `//@` line):
       //@ sig                 requires/ensures text, placed between signature and `{`
       //@ ghost               text placed at body entry, *outside* the body-exit wrapper
       //@ entry               text placed at body entry
       //@ loop <k> [iter=<name>]   invariant/decreases text placed in the header of loop k (source order)
       //@ loop_begin <k>      text placed at the first statement position of loop k's body
       //@ loop_end <k>        text placed after the last statement of loop k's body
       //@ guard_else <k>      (next lines: what the later arms do) moves match guard k into the arm body
       //@ annot <name>        (next line: a type) adds `: T` to `let [mut] <name> = ..`
       //@ after_let <name>    text placed immediately after the statement `let [mut] <name> ...;`
       //@ before <k>          text placed immediately before loop k's statement
       //@ after <k>           text placed immediately after loop k
       //@ exit                text placed after the body (body wrapped as `let r__ = { body }; <text> r__`)
       //@ closure <k>         replacement header for closure k (`|x: &T| -> (b: bool) ensures ..`); body gets `{ }`
       //@ subst <reason>      exact-text substitution `<<<` old `===` new `>>>` (anchor must occur exactly once; `all:` = every occurrence,
                               `opt:` = skipped when the text is not there)
       //@ first / last / params / tail    (block only)
  //@ end
  anything else is copied verbatim (prelude, spec functions, lemmas, impl headers ...).

Everything cut from /repo is byte-for-byte except for the logged rules (see RULES).
"""
import os
import re
import sys

sys.path.insert(0, os.path.dirname(__file__))
from rustlex import (ExtractError, SourceFile, lex, match_forward, match_backward, next_code, prev_code,
                     first_brace_at_depth0)

REPO_SRC = os.environ.get("VERIF_REPO_SRC", "/repo/oxidize-pdf-core/src")

RULES = {
    "D1": "dropped: attributes, doc comments, visibility qualifiers, `const` on fn",
    "D2": "dropped: tracing/log/println macros and debug_assert (no effect on contract state)",
    "R1": "`for &x in E {` -> `for x__r in E.iter() { let x = *x__r;`; `for (&a, &b) in &M {` -> `for (a__r, b__r) in M.iter() { let a = *a__r; let b = *b__r;`",
    "R2": "`for (i, x) in E.iter().enumerate() {` -> index while loop",
    "R3": "`for (i, b) in X.iter_mut().enumerate() { *b .. }` / `for b in X.iter_mut()` -> index loop with X[i]",
    "R4": "`for i in (a..b).rev() {` -> descending while loop",
    "R5": "consuming map iteration `for (k, v) in M {` -> `for (k__r, v__r) in M.iter() { let k = *k__r; let v = *v__r;` (M dead afterwards; value type made Copy in the assembled file, so the copy equals the moved value)",
    "R6w": "`write!/writeln!(W, LIT, args)[.expect(..)]` -> overlay-declared stub `wfmt__N(W, args)` with a precondition on the formatted values",
    "R6": "`format!(..)` -> call of an overlay-declared stub `fmt__K(args)` (uninterpreted result unless stated and discharged by enumeration)",
    "R25": "`for x in NAME {` / `for x in &E {` -> `for x in E.iter() {`",
    "R20": "`for b in S.bytes() {` -> `for b__r in S.as_bytes().iter() { let b = *b__r;` (definition of str::bytes)",
    "R7": "error-constructor expression `ParseError::X {..}` -> opaque `mk_err()`",
    "R15": "`E.and_then(|row| row.get(I)).unwrap_or(&0)` -> stub `get_or_zero(E, I)`",
    "R22": "`match E { Some(&P) => .. }` -> `match E.copied() { Some(P) => .. }`",
    "R23": "`E == Some(&LIT)` -> `matches!(E.copied(), Some(LIT))`",
    "R26": "call renaming: `path::f(ARGS)` -> overlay-declared stub `g(ARGS)` (for std/dependency functions without a Verus spec)",
    "R17": "`E.parse::<T>()` -> stub `parse_T(E)` with an unconstrained result",
    "R18": "`E.map_err(|_| C)?` -> `match E { Ok(v) => v, Err(_) => return Err(C) }`",
    "R9": "`E as <int>` -> `#[verifier::truncate] (E as <int>)` (Rust `as` is truncation)",
    "R10": "byte-string literal -> array literal of the same bytes",
    "R11": "`crate::a::b::X` / `super::X` / `Self::` path prefixes stripped or renamed for single-file assembly",
    "R14": "from_be_bytes/to_be_bytes -> stub with arithmetic spec",
    "R27": "lock sequentialisation: `if let Ok([mut] G) = self.F.write()/read() {` -> `if lock_ok() { let G = &[mut] self.F;` and `&self` -> `&mut self` (std RwLock: write() is exclusive, read() is shared; a poisoned lock is the nondeterministic `lock_ok() == false`; the field type `Arc<RwLock<T>>` is declared as `T` in the overlay)",
    "R30": "`for c in E.chunks_exact(N) {` / `for c in E.chunks(N) {` -> `let c__n = E.len() / N [+ 1 if a remainder is left]; let mut c__i = 0; while c__i < c__n { let c = &E[c__i*N .. c__i*N+N (cut at E.len() for chunks)]; c__i += 1;` (definition of slice::chunks_exact / slice::chunks)",
    "R29": "`for x in f(..) {` over an owned Vec of Copy elements -> `let v = f(..); let mut i = 0; while i < v.len() { let x = v[i]; i += 1; ..` (element taken and index advanced first, so `continue` is harmless)",
    "G1": "match-arm guard `P if C => B` -> `P => { if C { B } else { E } }` with E (what the later arms do for P) given in the overlay; works around a Verus crash on guards reading mutable locals",
    "A1": "closure annotated with parameter types / ensures; body wrapped in braces verbatim",
    "S": "overlay substitution at an exact text anchor (reason given in overlay)",
}

_sf_cache = {}


def source(rel):
    p = os.path.join(REPO_SRC, rel)
    if p not in _sf_cache:
        if not os.path.exists(p): raise ExtractError(f"missing source file {rel}")
        _sf_cache[p] = SourceFile(p)
    return _sf_cache[p]


class Edits:
    """edits in original coordinates of one extracted text"""

    def __init__(self, text, base_off, sf, offs=None):
        self.text, self.base, self.sf = text, base_off, sf
        self.offs0 = offs
        self.eds = []  # (start, end, new, order)
        self.n = 0

    def replace(self, a, b, new):
        keep = []
        for (s, e, t, o) in self.eds:
            if s != e and not (b <= s or e <= a):
                if s <= a and b <= e:
                    return          # the new rewrite lies inside text that an outer rewrite already replaces
                if a <= s and e <= b:
                    continue        # an earlier rewrite lies inside the text replaced now: the outer one wins
                raise ExtractError(f"overlapping rewrites at {a}..{b}")
            if s == e and a < s < b:
                continue            # insertion inside replaced text
            keep.append((s, e, t, o))
        self.eds = keep
        self.eds.append((a, b, new, self.n)); self.n += 1

    def insert(self, pos, new, soft=False):
        for (s, e, _, _) in self.eds:
            if s != e and s < pos < e:
                if soft: return     # a rule's insertion inside text that an outer rule replaces as a whole
                raise ExtractError(f"overlay text at {pos} falls inside rewritten source text")
        self.eds.append((pos, pos, new, self.n)); self.n += 1

    def render(self):
        """returns (text, offs) where offs[i] = source offset for char i, or None for inserted text"""
        src = self.text
        offs0 = list(self.offs0) if self.offs0 is not None else [self.base + i for i in range(len(src))]
        out, offs = [], []
        cur = 0
        # left to right; at equal start, pure insertions come before a replacement, in registration order
        for (s, e, new, order) in sorted(self.eds, key=lambda x: (x[0], 1 if x[1] > x[0] else 0, x[3])):
            if s < cur:
                raise ExtractError(f"rewrite inside a replaced range at {s}")
            out.append(src[cur:s]); offs += offs0[cur:s]
            out.append(new); offs += [None] * len(new)
            cur = e
        out.append(src[cur:]); offs += offs0[cur:]
        return "".join(out), offs


def _tokspan(toks, i, j):
    return toks[i].start, toks[j].end


MACROS_DROP = {"debug", "warn", "info", "trace", "error", "eprintln", "println", "debug_assert", "debug_assert_eq",
               "debug_assert_ne", "eprint", "print"}


def apply_common_rules(text, ed, rules, log, where):
    toks = lex(text)
    # D2: drop logging macros as statements
    i = 0
    while i < len(toks):
        t = toks[i]
        if t.kind == "ident" and t.text in MACROS_DROP:
            j = next_code(toks, i)
            if j is not None and toks[j].text == "!":
                k = next_code(toks, j)
                if k is not None and toks[k].text in ("(", "[", "{"):
                    e = match_forward(toks, k)
                    s = i
                    # optional path prefix tracing:: / log::
                    p = prev_code(toks, s)
                    while p is not None and toks[p].text == "::":
                        q = prev_code(toks, p)
                        if q is not None and toks[q].kind == "ident":
                            s = q; p = prev_code(toks, s)
                        else: break
                    nx = next_code(toks, e)
                    if nx is not None and toks[nx].text == ";":
                        e = nx
                        if t.text.startswith("debug_assert") and "D2keep" in rules and t.text == "debug_assert":
                            inner = text[toks[k].end:toks[match_forward(toks, k)].start]
                            ed.replace(toks[s].start, toks[e].end, f"assert({inner});")
                        else:
                            ed.replace(toks[s].start, toks[e].end, "")
                        log.append(("D2", where, t.text + "!"))
                        i = e + 1; continue
        i += 1
    if _CUR_OPTS.get("fnmap"):
        # R26: call renaming `path::to::f(ARGS)` -> `stub(ARGS)` whatever the arguments are (overlay declares the stub)
        for pair in _CUR_OPTS["fnmap"].split(","):
            src_path, dst = pair.split("=>")
            parts = src_path.split("::")
            i = 0
            while i < len(toks):
                if toks[i].kind == "ident" and toks[i].text == parts[0]:
                    j = i; ok = True
                    for part in parts[1:]:
                        n1 = next_code(toks, j)
                        n2 = next_code(toks, n1) if n1 is not None else None
                        if n1 is None or n2 is None or toks[n1].text != "::" or toks[n2].text != part: ok = False; break
                        j = n2
                    nx = next_code(toks, j) if ok else None
                    pv = prev_code(toks, i)
                    if ok and nx is not None and toks[nx].text == "(" and not (pv is not None and toks[pv].text in ("::", ".", "fn")):
                        ed.replace(toks[i].start, toks[j].end, dst)
                        log.append(("R26", where, f"{src_path}(..) -> {dst}(..)"))
                        i = j + 1; continue
                i += 1
    if "R27" in rules:
        wrote = False
        for i, t in enumerate(toks):
            if t.kind == "ident" and t.text == "if":
                n1 = next_code(toks, i)
                if n1 is None or toks[n1].text != "let": continue
                n2 = next_code(toks, n1); n3 = next_code(toks, n2)
                if toks[n2].text != "Ok" or toks[n3].text != "(": continue
                e3 = match_forward(toks, n3)
                pat = [x.text for x in toks[n3 + 1:e3] if x.kind not in ("ws", "lc", "bc")]
                if not (len(pat) == 1 or (len(pat) == 2 and pat[0] == "mut")): continue
                g = pat[-1]
                eq = next_code(toks, e3)
                if toks[eq].text != "=": continue
                ob = first_brace_at_depth0(toks, eq + 1)
                expr = text[toks[eq].end:toks[ob].start].strip()
                m = re.fullmatch(r"(self\.\w+)\.(write|read)\(\)", expr)
                if not m: continue
                mut_ = "mut " if m.group(2) == "write" else ""
                wrote = wrote or m.group(2) == "write"
                ed.replace(toks[n1].start, toks[ob].end, f"lock_ok() {{ let {g} = &{mut_}{m.group(1)};")
                log.append(("R27", where, text[t.start:toks[ob].start].strip()))
        if wrote:
            m = re.search(r"\(\s*&self\b", text)
            if m:
                ed.replace(m.start(), m.end(), "(&mut self")
                log.append(("R27", where, "&self -> &mut self"))
    if "R11" in rules:
        # `crate::a::b::X` / `super::X` -> `X` (single-file assembly has no module tree)
        i = 0
        while i < len(toks):
            t = toks[i]
            if t.kind == "ident" and t.text in ("crate", "super"):
                j = i; lastid = None
                while True:
                    n1 = next_code(toks, j)
                    if n1 is None or toks[n1].text != "::": break
                    n2 = next_code(toks, n1)
                    if n2 is None or toks[n2].kind != "ident": break
                    lastid = n2; j = n2
                if lastid is not None:
                    ed.replace(t.start, toks[lastid].start, "")
                    log.append(("R11", where, text[t.start:toks[lastid].end]))
                    i = lastid + 1; continue
            i += 1
    if "R7" in rules:
        # error-constructor expressions -> opaque mk_err(); error payloads never occur in a contract
        i = 0
        while i < len(toks):
            t = toks[i]
            if t.kind == "ident" and t.text in ("ParseError", "PdfError", "OperationError"):
                j = next_code(toks, i)
                if j is not None and toks[j].text == "::":
                    k = next_code(toks, j)
                    l = next_code(toks, k) if k is not None else None
                    if k is not None and toks[k].kind == "ident" and l is not None and toks[l].text in ("{", "("):
                        e = match_forward(toks, l)
                        ed.replace(t.start, toks[e].end, "mk_err()")
                        log.append(("R7", where, text[t.start:toks[l].start].strip()))
                        i = e + 1; continue
            i += 1
    if "R14" in rules:
        for i, t in enumerate(toks):
            if t.kind == "ident" and t.text in ("from_be_bytes", "from_le_bytes"):
                p1 = prev_code(toks, i); p2 = prev_code(toks, p1) if p1 is not None else None
                n1 = next_code(toks, i)
                if p1 is None or p2 is None or toks[p1].text != "::" or toks[p2].text not in _INT_TYPES or toks[n1].text != "(":
                    continue
                e = match_forward(toks, n1)
                a1 = next_code(toks, n1)
                pre = "be" if t.text == "from_be_bytes" else "le"
                if toks[a1].text == "[":
                    a2 = match_forward(toks, a1)
                    ed.replace(toks[p2].start, toks[a1].end, f"{pre}_{toks[p2].text}(")
                    ed.replace(toks[a2].start, toks[e].end, ")")
                else:
                    ed.replace(toks[p2].start, toks[n1].end, f"{pre}_{toks[p2].text}_arr(")
                log.append(("R14", where, text[toks[p2].start:toks[e].end][:80]))
    if "R6w" in rules:
        # `write!(W, LIT, args..)[.expect(..)]` / `writeln!(..)` -> `wfmt__N(W, captured.., args..)` (N = number of values):
        # overlay-declared generic stubs whose precondition is that every formatted value is printable as PDF syntax
        i = 0
        while i < len(toks):
            t = toks[i]
            if t.kind == "ident" and t.text in ("write", "writeln"):
                j = next_code(toks, i)
                k = next_code(toks, j) if j is not None else None
                pv = prev_code(toks, i)
                if j is not None and toks[j].text == "!" and k is not None and toks[k].text == "(" and not (pv is not None and toks[pv].text in (".", "::")):
                    e = match_forward(toks, k)
                    # first argument up to the first top-level comma
                    depth = 0; c1 = None
                    for q in range(k + 1, e):
                        x = toks[q]
                        if x.kind == "punct" and x.text in OPEN_SET: depth += 1
                        elif x.kind == "punct" and x.text in CLOSE_SET: depth -= 1
                        elif x.kind == "punct" and x.text == "," and depth == 0: c1 = q; break
                    if c1 is None: raise ExtractError(f"unsupported-construct: {where}: write! without format string")
                    w_expr = text[toks[k].end:toks[c1].start].strip()
                    lit = next_code(toks, c1)
                    if toks[lit].kind != "str": raise ExtractError(f"unsupported-construct: {where}: write! without a literal")
                    caps = []
                    for m in re.finditer(r"\{\{|\}\}|\{([A-Za-z_][A-Za-z0-9_]*)?(:[^}]*)?\}", toks[lit].text):
                        if m.group(0) in ("{{", "}}"): continue
                        if m.group(1): caps.append(m.group(1))
                    rest = text[toks[lit].end:toks[e].start].strip()
                    if rest.startswith(","): rest = rest[1:].strip()
                    rest = rest.rstrip(",").strip()
                    args = [c for c in caps] + ([rest] if rest else [])
                    nvals = len(caps) + (len([a for a in rest.split(",") if a.strip()]) if rest else 0)
                    end = e
                    ed.replace(t.start, toks[end].end, f"wfmt__{nvals}({', '.join([w_expr] + args)})")
                    log.append(("R6w", where, text[t.start:toks[e].end][:90].replace("\n", " ")))
                    i = end + 1; continue
            i += 1
    if "R6" in rules or "noR6" not in rules:
        # format!(LIT, args..) -> fmt__K(captured.., args..): an overlay-declared stub whose result is an uninterpreted
        # (or Ec-discharged) function of the argument values. Always on: a format! the overlay does not name gets an
        # auto-declared stub `fmt_auto__<n>(&args..)` with NO contract (nothing is known about the formatted text), so that
        # new formatting code fails the obligations that depend on it instead of making the unit unreadable.
        kf = 0
        i = 0
        while i < len(toks):
            t = toks[i]
            if t.kind == "ident" and t.text == "format":
                j = next_code(toks, i)
                k = next_code(toks, j) if j is not None else None
                if j is not None and toks[j].text == "!" and k is not None and toks[k].text == "(":
                    e = match_forward(toks, k)
                    lit = next_code(toks, k)
                    if toks[lit].kind != "str":
                        raise ExtractError(f"unsupported-construct: {where}: format! without a literal")
                    caps = []
                    for m in re.finditer(r"\{\{|\}\}|\{([A-Za-z_][A-Za-z0-9_]*)?(:[^}]*)?\}", toks[lit].text):
                        if m.group(0) in ("{{", "}}"): continue
                        if m.group(1): caps.append(m.group(1))
                    rest = text[toks[lit].end:toks[e].start].strip()
                    if rest.startswith(","): rest = rest[1:].strip()
                    args = ", ".join([c for c in caps] + ([rest] if rest else []))
                    names_ = _CUR_OPTS.get("fmts", "").split(",") if _CUR_OPTS.get("fmts") else []
                    nm_ = names_[kf] if kf < len(names_) and names_[kf] else f"fmt__{kf}"
                    if "R6" not in rules or (not re.search(r"\bfn\s+" + re.escape(nm_) + r"\b", _OVERLAY_TEXT[0])):
                        alist = [c for c in caps] + ([a_.strip() for a_ in _split_top_commas(rest)] if rest else [])
                        alist = [a_ for a_ in alist if a_]
                        nm_ = f"fmt_auto__{len(_AUTO_STUBS)}"
                        _AUTO_STUBS.append((nm_, len(alist)))
                        args = ", ".join(f"&({a_})" for a_ in alist)
                    ed.replace(t.start, toks[e].end, f"{nm_}({args})")
                    log.append(("R6", where, f"{nm_} <- " + text[t.start:toks[e].end][:90].replace("\n", " ")))
                    kf += 1
                    i = e + 1; continue
            i += 1
    if "R22" in rules:
        # `match E { Some(&P) => .. }` -> `match E.copied() { Some(P) => .. }` (Option<&T>::copied; T: Copy)
        for i, t in enumerate(toks):
            if t.kind == "ident" and t.text == "match":
                ob = first_brace_at_depth0(toks, i + 1)
                if ob is None: continue
                cb = match_forward(toks, ob)
                hits = []
                depth = 0
                q = ob + 1
                while q < cb:
                    x = toks[q]
                    if x.kind == "punct" and x.text in OPEN_SET: depth += 1
                    elif x.kind == "punct" and x.text in CLOSE_SET: depth -= 1
                    if x.kind == "ident" and x.text == "Some" and depth == 0:
                        n1 = next_code(toks, q); n2 = next_code(toks, n1)
                        if toks[n1].text == "(" and toks[n2].text == "&":
                            hits.append(n2)
                    q += 1
                if hits:
                    last = prev_code(toks, ob)
                    ed.insert(toks[last].end, ".copied()")
                    for h in hits: ed.replace(toks[h].start, toks[h].end, "")
                    log.append(("R22", where, text[t.start:toks[ob].start].strip()[:80]))
    if "R22" in rules:
        # `while let Some(&c) = E {` / `if let Some(&c) = E {` -> `.. let Some(c) = E.copied() {`
        for i, t in enumerate(toks):
            if t.kind == "ident" and t.text in ("while", "if"):
                n1 = next_code(toks, i)
                if n1 is None or toks[n1].text != "let": continue
                n2 = next_code(toks, n1); n3 = next_code(toks, n2); n4 = next_code(toks, n3)
                if toks[n2].text != "Some" or toks[n3].text != "(" or toks[n4].text != "&": continue
                ob = first_brace_at_depth0(toks, match_forward(toks, n3) + 1)
                if ob is None: continue
                ed.replace(toks[n4].start, toks[n4].end, "")
                ed.insert(toks[prev_code(toks, ob)].end, ".copied()")
                log.append(("R22", where, text[t.start:toks[ob].start].strip()))
    if "R23" in rules:
        # `E == Some(&LIT)` -> `matches!(E.copied(), Some(LIT))`
        for i, t in enumerate(toks):
            if t.kind == "punct" and t.text == "==":
                n1 = next_code(toks, i)
                if toks[n1].text != "Some": continue
                n2 = next_code(toks, n1); n3 = next_code(toks, n2); n4 = next_code(toks, n3); n5 = next_code(toks, n4)
                if toks[n2].text != "(" or toks[n3].text != "&" or toks[n5].text != ")": continue
                st = _postfix_start(toks, prev_code(toks, i))
                ed.insert(toks[st].start, "matches!(")
                ed.replace(toks[prev_code(toks, i)].end, toks[n5].end, f".copied(), Some({toks[n4].text}))")
                log.append(("R23", where, text[toks[st].start:toks[n5].end]))
    if "R15" in rules:
        # `E.and_then(|row| row.get(IDX)).unwrap_or(&0)` -> `get_or_zero(E, IDX)`; a leading `*` deref is kept
        for m in re.finditer(r"(\w+)\s*\.and_then\(\|(\w+)\|\s*\2\.get\(([^()]+)\)\)\s*\.unwrap_or\(&0\)", text):
            ed.replace(m.start(), m.end(), f"get_or_zero({m.group(1)}, {m.group(3)})")
            log.append(("R15", where, m.group(0)[:80].replace("\n", " ")))
    if "R18" in rules:
        # `E.map_err(|_| C)?` -> `(match E { Ok(v__) => v__, Err(_) => return Err(C) })` (same error type: `?` adds no conversion)
        for i, t in enumerate(toks):
            if t.kind == "ident" and t.text == "map_err":
                p1 = prev_code(toks, i); n1 = next_code(toks, i)
                if p1 is None or toks[p1].text != "." or toks[n1].text != "(": continue
                e = match_forward(toks, n1)
                q = next_code(toks, e)
                if q is None or toks[q].text != "?": continue
                a1 = next_code(toks, n1)
                if toks[a1].text != "|": continue
                a2 = next_code(toks, a1); a3 = next_code(toks, a2)
                if toks[a2].text != "_" or toks[a3].text != "|": continue
                st = _postfix_start(toks, prev_code(toks, p1))
                ed.insert(toks[st].start, "(match ")
                ed.replace(toks[p1].start, toks[a3].end, " { Ok(v__) => v__, Err(_) => return Err(")
                ed.replace(toks[e].start, toks[q].end, ") })")
                log.append(("R18", where, text[toks[st].start:toks[q].end][:100].replace("\n", " ")))
    if "R18" in rules:
        # `E.ok_or_else(|| C)?` -> `(match E { Some(v__) => v__, None => return Err(C) })`
        for i, t in enumerate(toks):
            if t.kind == "ident" and t.text == "ok_or_else":
                p1 = prev_code(toks, i); n1 = next_code(toks, i)
                if p1 is None or toks[p1].text != "." or toks[n1].text != "(": continue
                e = match_forward(toks, n1)
                q = next_code(toks, e)
                if q is None or toks[q].text != "?": continue
                a1 = next_code(toks, n1)
                if toks[a1].text != "||": continue
                st = _postfix_start(toks, prev_code(toks, p1))
                ed.insert(toks[st].start, "(match ")
                ed.replace(toks[p1].start, toks[a1].end, " { Some(v__) => v__, None => return Err(")
                ed.replace(toks[e].start, toks[q].end, ") })")
                log.append(("R18", where, text[toks[st].start:toks[q].end][:100].replace("\n", " ")))
    if "R17" in rules:
        # `E.parse::<T>()` -> `parse_T(E)` (stub: body is the original call, contract is nondeterministic)
        for i, t in enumerate(toks):
            if t.kind == "ident" and t.text == "parse":
                p1 = prev_code(toks, i)
                n1 = next_code(toks, i)
                if p1 is None or toks[p1].text != "." or toks[n1].text != "::": continue
                n2 = next_code(toks, n1); n3 = next_code(toks, n2); n4 = next_code(toks, n3); n5 = next_code(toks, n4); n6 = next_code(toks, n5)
                if toks[n2].text != "<" or toks[n4].text != ">" or toks[n5].text != "(" or toks[n6].text != ")": continue
                st = _postfix_start(toks, prev_code(toks, p1))
                ed.insert(toks[st].start, f"parse_{toks[n3].text}(")
                ed.replace(toks[p1].start, toks[n6].end, ")")
                log.append(("R17", where, text[toks[st].start:toks[n6].end][:80]))
    if "R14" in rules:
        # `E.to_be_bytes()` -> `to_be_bytes_stub(E)` (overlay declares the stub for the operand type)
        for i, t in enumerate(toks):
            if t.kind == "ident" and t.text in ("to_be_bytes", "to_le_bytes"):
                p1 = prev_code(toks, i); n1 = next_code(toks, i)
                if p1 is None or toks[p1].text != "." or toks[n1].text != "(": continue
                n2 = next_code(toks, n1)
                if toks[n2].text != ")": continue
                st = _postfix_start(toks, prev_code(toks, p1))
                names_ = _CUR_OPTS.get("les", "").split(",") if _CUR_OPTS.get("les") else []
                k14 = sum(1 for l_ in log if l_[0] == "R14" and l_[1] == where and "_bytes()" in l_[2])
                nm_ = names_[k14] if k14 < len(names_) and names_[k14] else f"{t.text}_stub"
                ed.insert(toks[st].start, f"{nm_}(")
                ed.replace(toks[p1].start, toks[n2].end, ")")
                log.append(("R14", where, text[toks[st].start:toks[n2].end]))
    if "R9" in rules:
        _rule_r9(text, toks, ed, log, where)
    if "R10" in rules:
        for t in toks:
            if t.kind == "str" and t.text.startswith('b"'):
                bs = _decode_bytestr(t.text)
                # &[..] only when used as a slice value; literal is `&'static [u8; N]` so `&[..]` keeps the type shape
                ed.replace(t.start, t.end, "(&[" + ", ".join(f"0x{b:02X}u8" for b in bs) + "])")
                log.append(("R10", where, t.text))


_AUTO_STUBS = []
_OVERLAY_TEXT = [""]


def _split_top_commas(txt):
    out, depth, cur = [], 0, ""
    for ch in txt:
        if ch in "([{": depth += 1
        elif ch in ")]}": depth -= 1
        if ch == "," and depth == 0: out.append(cur); cur = ""
        else: cur += ch
    if cur.strip(): out.append(cur)
    return out


_INT_TYPES = {"u8", "u16", "u32", "u64", "u128", "usize", "i8", "i16", "i32", "i64", "i128", "isize"}


def _postfix_start(toks, p):
    """index of the first token of the postfix/primary expression that ends at token p"""
    start = p
    while True:
        x = toks[start]
        if x.kind == "punct" and x.text in (")", "]"):
            start = match_backward(toks, start)
            q = prev_code(toks, start)
            if q is not None and (toks[q].kind == "ident" and toks[q].text not in ("as", "in", "return", "if", "else", "match", "let", "mut", "while") or
                                  toks[q].text in (")", "]", "?", ">")):
                if toks[q].text == ">":
                    # turbofish `::<T>`: skip back over the generic args
                    depth = 0; k = q
                    while k >= 0:
                        if toks[k].kind == "punct" and toks[k].text == ">": depth += 1
                        elif toks[k].kind == "punct" and toks[k].text == "<":
                            depth -= 1
                            if depth == 0: break
                        k -= 1
                    q2 = prev_code(toks, k)
                    if q2 is not None and toks[q2].text == "::":
                        start = prev_code(toks, q2); continue
                    break
                start = q; continue
            break
        if x.kind in ("ident", "num", "char", "str"):
            q = prev_code(toks, start)
            if q is not None and toks[q].text in (".", "::"):
                r = prev_code(toks, q)
                if r is None: break
                start = r; continue
            if q is not None and toks[q].text == "&" :
                pass
            break
        if x.text == "?":
            start = prev_code(toks, start); continue
        break
    return start


def _rule_r9(text, toks, ed, log, where):
    for i, t in enumerate(toks):
        if t.kind == "ident" and t.text == "as":
            j = next_code(toks, i)
            if j is None or toks[j].text not in _INT_TYPES: continue
            # operand: walk back over a postfix/primary expression
            p = prev_code(toks, i)
            if p is None: continue
            start = p
            while True:
                x = toks[start]
                if x.kind == "punct" and x.text in (")", "]"):
                    start = match_backward(toks, start)
                    q = prev_code(toks, start)
                    if q is not None and (toks[q].kind == "ident" and toks[q].text not in ("as", "in", "return", "if", "else", "match", "let", "mut", "while") or
                                          toks[q].text in (")", "]", "?")):
                        start = q; continue
                    break
                if x.kind in ("ident", "num", "char"):
                    q = prev_code(toks, start)
                    if q is not None and toks[q].text in (".", "::"):
                        r = prev_code(toks, q)
                        if r is None: break
                        start = r; continue
                    break
                if x.text == "?":
                    start = prev_code(toks, start); continue
                break
            # unary prefix
            q = prev_code(toks, start)
            while q is not None and toks[q].text in ("-", "*", "!", "&"):
                r = prev_code(toks, q)
                if r is not None and (toks[r].kind in ("ident", "num", "char", "str") and toks[r].text not in ("return", "in", "as", "if", "else", "match") or toks[r].text in (")", "]")):
                    break  # binary operator
                start = q; q = r
            if toks[start].kind == "num" and start == p:
                continue  # literal cast: value is known
            # chained casts `x as u8 as char`: fine, inner one handled on its own
            a, b = toks[start].start, toks[j].end
            try:
                ed.insert(a, "(#[verifier::truncate] (", soft=True)
                ed.insert(b, "))", soft=True)
            except ExtractError:
                raise
            log.append(("R9", where, text[a:b]))


def _decode_bytestr(lit):
    body = lit[2:-1]
    out = []
    i = 0
    while i < len(body):
        c = body[i]
        if c == "\\":
            n = body[i + 1]
            if n == "x":
                out.append(int(body[i + 2:i + 4], 16)); i += 4; continue
            m = {"n": 10, "r": 13, "t": 9, "\\": 92, "0": 0, "'": 39, '"': 34}
            if n in m:
                out.append(m[n]); i += 2; continue
            raise ExtractError("byte string escape not supported: " + lit)
        out.append(ord(c)); i += 1
    return out


# ---------------------------------------------------------------------------------------------------------------
def find_loops(toks, lo, hi):
    """loops in source order inside toks[lo:hi]: list of (kw_idx, body_open_idx, body_close_idx)"""
    res = []
    i = lo
    while i < hi:
        t = toks[i]
        if t.kind == "ident" and t.text in ("while", "for", "loop"):
            if t.text == "for":
                # must be followed (eventually) by `in` before `{`
                ob = first_brace_at_depth0(toks, i + 1, hi)
                if ob is None or not any(x.kind == "ident" and x.text == "in" for x in toks[i:ob]):
                    i += 1; continue
            p = prev_code(toks, i)
            if p is not None and toks[p].text in (".", "::"):
                i += 1; continue
            ob = first_brace_at_depth0(toks, i + 1, hi)
            if ob is None:
                i += 1; continue
            cb = match_forward(toks, ob)
            res.append((i, ob, cb))
        i += 1
    return res


def find_closures(toks, lo, hi):
    """closures in source order: (first_bar_idx, last_bar_idx, body_first_idx, body_last_idx, is_block)"""
    res = []
    i = lo
    while i < hi:
        t = toks[i]
        if t.kind == "punct" and t.text in ("|", "||"):
            p = prev_code(toks, i)
            pt = toks[p].text if p is not None else ""
            if pt in ("(", ",", "=", "{", ";", "move", "return", "=>", "["):
                if t.text == "||":
                    lb = i
                else:
                    lb = i + 1
                    while lb < hi and not (toks[lb].kind == "punct" and toks[lb].text == "|"): lb += 1
                b0 = next_code(toks, lb)
                if toks[b0].text == "{":
                    b1 = match_forward(toks, b0); blk = True
                else:
                    depth = 0; k = b0
                    while k < hi:
                        x = toks[k]
                        if x.kind == "punct":
                            if x.text in OPEN_SET: depth += 1
                            elif x.text in CLOSE_SET:
                                if depth == 0: break
                                depth -= 1
                            elif x.text in (",", ";") and depth == 0: break
                        k += 1
                    b1 = prev_code(toks, k); blk = False
                res.append((i, lb, b0, b1, blk))
                i = b1 + 1; continue
        i += 1
    return res


OPEN_SET = {"(", "[", "{"}
CLOSE_SET = {")", "]", "}"}


class Section:
    def __init__(self, kind, arg=None, opts=None):
        self.kind, self.arg, self.opts, self.lines = kind, arg, opts or {}, []

    @property
    def text(self):
        return "\n".join(self.lines)


def parse_opts(words):
    pos, opts = [], {}
    for w in words:
        if "=" in w and not w.startswith("="):
            k, v = w.split("=", 1); opts[k] = v
        elif w in ("opt", "novac", "noterm"): opts[w] = "1"
        else: pos.append(w)
    return pos, opts


def assemble(overlay_path):
    """returns dict(text, linemap, log, functions, unit, properties, assumptions_scan)"""
    lines = open(overlay_path, encoding="utf-8").read().split("\n")
    del _AUTO_STUBS[:]
    _OVERLAY_TEXT[0] = "\n".join(lines)
    for m_ in re.finditer(r"^//@ include (\S+)", _OVERLAY_TEXT[0], re.M):
        _OVERLAY_TEXT[0] += open(os.path.join(os.path.dirname(overlay_path), m_.group(1)), encoding="utf-8").read()
    out_chunks = []  # (text, offs or None, srcfile)
    log = []
    functions = []  # dicts: name, file, line, has_requires
    meta = {"unit": os.path.basename(overlay_path).rsplit(".", 1)[0], "properties": [], "min_obligations": 1}
    i = 0
    cur = None  # current fn/block/item dict

    def flush_raw(buf):
        if buf: out_chunks.append(("\n".join(buf) + "\n", None, None))

    raw = []
    while i < len(lines):
        ln = lines[i]
        if not ln.startswith("//@"):
            if cur is None: raw.append(ln)
            else: cur["sections"][-1].lines.append(ln)
            i += 1; continue
        words = ln[3:].split()
        if not words: i += 1; continue
        d = words[0]
        if d == "unit":
            pos, opts = parse_opts(words[1:])
            meta["unit"] = pos[0]
            meta["properties"] = opts.get("property", "").split(",")
            meta["min_obligations"] = int(opts.get("min_obligations", 1))
            if opts.get("rlimit"): meta["rlimit"] = int(opts["rlimit"])   # Verus --rlimit for units with one large query (default 10)
        elif d in ("fn", "block", "item"):
            if cur is not None: raise ExtractError(f"{overlay_path}:{i+1}: nested directive")
            flush_raw(raw); raw = []
            pos, opts = parse_opts(words[1:])
            cur = {"kind": d, "pos": pos, "opts": opts, "sections": [Section("none")], "line": i + 1}
        elif d == "end":
            if cur is None: raise ExtractError(f"{overlay_path}:{i+1}: stray end")
            txt, offs, sf, fmeta = build_item(cur, log)
            txt = txt + "\n"
            out_chunks.append((txt, offs + [None], sf))
            if fmeta:
                fmeta["_chunk"] = txt
                functions.append(fmeta)
            cur = None
        elif d == "raw":
            pass
        elif d == "include":
            inc = os.path.join(os.path.dirname(overlay_path), words[1])
            raw.append(open(inc, encoding="utf-8").read())
        elif d == "stdlib":
            # common trusted std specs (lib/std_common.rs); an entry is skipped when the unit (or one of its includes)
            # already declares the same function, because a second assume_specification is a hard error
            whole = "\n".join(lines)
            for m_ in re.finditer(r"^//@ include (\S+)", whole, re.M):
                whole += open(os.path.join(os.path.dirname(overlay_path), m_.group(1)), encoding="utf-8").read()
            std = open(os.path.join(os.path.dirname(overlay_path), "lib", "std_common.rs"), encoding="utf-8").read()
            for ent in re.split(r"^//key:", std, flags=re.M)[1:]:
                key, body = ent.split("\n", 1)
                if key.strip() in whole: continue
                raw.append(body.rstrip("\n"))
        else:
            if cur is None: raise ExtractError(f"{overlay_path}:{i+1}: section outside item: {ln}")
            pos, opts = parse_opts(words[1:])
            if d == "subst":
                cur["sections"].append(Section(d, " ".join(words[1:]), {}))
            else:
                cur["sections"].append(Section(d, pos[0] if pos else None, opts))
        i += 1
    if cur is not None: raise ExtractError("unterminated item in overlay")
    flush_raw(raw)
    # line map
    text = ""
    linemap = {}  # out line -> (file, src line)
    line = 1
    for (t, offs, sf) in out_chunks:
        for fm in functions:
            if fm.get("_chunk") is t:
                fm["out_first"] = line; fm["out_last"] = line + fm["main_lines"] - 1
                fm["chunk_last"] = line + t.count("\n")
                del fm["_chunk"]
        if offs is not None and sf is not None:
            first = {}
            l = line
            for ch, o in zip(t, offs):
                if o is not None and l not in first: first[l] = o
                if ch == "\n": l += 1
            for l, o in first.items():
                linemap[l] = (os.path.relpath(sf.path, "/repo"), sf.line_of(o))
        line += t.count("\n")
        text += t
    if _AUTO_STUBS:
        # auto-declared formatting stubs (see R6): generic over the argument types, no contract
        decl = "".join(
            f"#[verifier::external_body]\nfn {nm}<{', '.join(f'A{i}' for i in range(n))}>({', '.join(f'a{i}: &A{i}' for i in range(n))}) -> (r: String) {{ unimplemented!() }}\n"
            if n else f"#[verifier::external_body]\nfn {nm}() -> (r: String) {{ unimplemented!() }}\n"
            for (nm, n) in _AUTO_STUBS)
        k = text.rfind("\n}\nfn main")
        if k < 0: raise ExtractError("cannot place auto-declared formatting stubs (no closing `}` + `fn main`)")
        text = text[:k + 1] + decl + text[k + 1:]
    return dict(text=text, linemap=linemap, log=log, functions=functions, **meta)


def _strip_vis_attrs(text, ed, log, where, keep_pub=False):
    toks = lex(text)
    i = 0
    while i < len(toks):
        t = toks[i]
        if t.kind == "lc" and (t.text.startswith("///") or t.text.startswith("//!")):
            ed.replace(t.start, t.end, ""); log.append(("D1", where, "doc comment"))
        elif t.kind == "punct" and t.text == "#":
            j = next_code(toks, i)
            if j is not None and toks[j].text == "[":
                e = match_forward(toks, j)
                ed.replace(t.start, toks[e].end, ""); log.append(("D1", where, text[t.start:toks[e].end]))
                i = e + 1; continue
        elif t.kind == "ident" and t.text == "pub" and not keep_pub:
            j = next_code(toks, i)
            e = i
            if j is not None and toks[j].text == "(":
                e = match_forward(toks, j)
            ed.replace(t.start, toks[e].end, ""); log.append(("D1", where, "pub"))
            i = e + 1; continue
        i += 1


_CUR_OPTS = {}


def build_item(cur, log):
    global _CUR_OPTS
    kind, pos, opts = cur["kind"], cur["pos"], cur["opts"]
    _CUR_OPTS = opts
    sf = source(pos[0])
    rules = set(opts.get("rules", "").split(",")) - {""}
    secs = cur["sections"]
    if kind == "item":
        ikind, name = pos[1], pos[2]
        a, b = sf.find_item(ikind, name)
        s, e = sf.toks[a].start, sf.toks[b].end
        text = sf.src[s:e]
        ed = Edits(text, s, sf)
        where = f"{pos[0]}:{sf.line_of(s)} {ikind} {name}"
        _strip_vis_attrs(text, ed, log, where)
        apply_common_rules(text, ed, rules, log, where)
        _apply_substs(text, ed, secs, log, where)
        if "rename" in opts:
            m = re.search(r"\b" + re.escape(name) + r"\b", text)
            ed.replace(m.start(), m.end(), opts["rename"])
        t, offs = ed.render()
        pre = opts.get("derive")
        if pre:
            hdr = f"#[derive({pre})]\n"
            t, offs = hdr + t, [None] * len(hdr) + offs
        return t, offs, sf, None

    if kind == "fn":
        kw, ob, cb = sf.find_fn(pos[1], trait=opts.get("trait"), nth=int(opts["nth"]) if "nth" in opts else None)
        s, e = sf.toks[kw].start, sf.toks[cb].end
        text = sf.src[s:e]
        base = s
        name = pos[1].rsplit("::", 1)[-1]
        # record what was dropped before `fn` (D1)
        p = prev_code(sf.toks, kw)
        while p is not None and sf.toks[p].kind == "ident" and sf.toks[p].text in ("pub", "const", "crate", "async", "unsafe", "extern"):
            if sf.toks[p].text in ("async", "unsafe", "extern"):
                raise ExtractError(f"unsupported-construct: {sf.toks[p].text} fn {pos[1]}")
            log.append(("D1", f"{pos[0]}:{sf.line_of(s)} fn {pos[1]}", sf.toks[p].text))
            p = prev_code(sf.toks, p)
    else:  # block
        kw, ob, cb = sf.find_fn(pos[1], trait=opts.get("trait"))
        name = opts["name"]
        fsec = {x.kind: x for x in secs}
        body = sf.src[sf.toks[ob].end:sf.toks[cb].start]
        boff = sf.toks[ob].end
        # alternatives separated by a line `|||`: the block starts at the earliest `first` anchor and ends at the latest
        # `last` anchor, so that reordering the anchored statements does not lose the block
        firsts = [x.strip() for x in fsec["first"].text.split("|||") if x.strip()]
        lasts = [x.strip() for x in fsec["last"].text.split("|||") if x.strip()]
        for anc in firsts:
            if body.count(anc) > 1:
                raise ExtractError(f"lost-anchor: block {name} in {pos[1]}: anchor occurs {body.count(anc)}x: {anc[:50]!r}")
        # alternatives that do not occur are ignored (they name older/newer spellings of the same statement)
        firsts = [x for x in firsts if body.count(x) == 1]
        lasts = [x for x in lasts if body.count(x) >= 1]
        if not firsts or not lasts:
            raise ExtractError(f"lost-anchor: block {name} in {pos[1]}: no first/last anchor found")
        a = min(body.index(x) for x in firsts)
        # a `last` anchor that occurs several times (e.g. an early `return` added in front of the final one) ends the block at its
        # LAST occurrence after the start: the added exit is then inside the block and has to meet the contract
        b = max(body.rindex(x) + len(x) for x in lasts)
        if b <= a: raise ExtractError(f"lost-anchor: block {name}: anchors out of order")
        # extend the end so that every brace opened inside the block is closed (anchors may end inside a nested statement)
        depth = 0
        for tk in lex(body[a:]):
            if tk.kind == "punct" and tk.text in OPEN_SET: depth += 1
            elif tk.kind == "punct" and tk.text in CLOSE_SET:
                depth -= 1
                if depth < 0: raise ExtractError(f"lost-anchor: block {name}: unbalanced block")
            if a + tk.end >= b and depth == 0:
                b = max(b, a + tk.end); break
        params = fsec["params"].text.strip()
        tail = fsec["tail"].text if "tail" in fsec else ""
        head = f"fn {name}{params} {{\n"
        text = head + body[a:b] + "\n" + tail + "\n}"
        base = None
        blk_offs = [None] * len(head) + [boff + a + q for q in range(b - a)] + [None] * (len(text) - len(head) - (b - a))
    where = f"{pos[0]}:{sf.line_of(sf.toks[kw].start)} fn {pos[1]}" + (f" block {name}" if kind == "block" else "")
    ed = Edits(text, base, sf, offs=blk_offs if kind == "block" else None)
    toks = lex(text)
    # locate signature pieces
    k_fn = 0
    k_name = next_code(toks, k_fn)
    k = next_code(toks, k_name)
    if toks[k].text == "<":
        depth = 0
        while True:
            x = toks[k]
            if x.kind == "punct":
                if x.text == "<": depth += 1
                elif x.text == ">": depth -= 1
                elif x.text == ">>": depth -= 2
            if depth == 0: break
            k += 1
        k = next_code(toks, k)
    if toks[k].text != "(": raise ExtractError(f"cannot parse signature of {pos[1]}")
    k_rp = match_forward(toks, k)
    k_body = first_brace_at_depth0(toks, k_rp + 1)
    k_close = match_forward(toks, k_body)
    k_arrow = next_code(toks, k_rp)
    has_ret = toks[k_arrow].text == "->"
    ret_binder = opts.get("ret")
    if has_ret:
        # return type runs to `where` or body
        k_end = k_body
        for q in range(k_arrow, k_body):
            if toks[q].kind == "ident" and toks[q].text == "where": k_end = q; break
        rt_a = toks[next_code(toks, k_arrow)].start
        rt_b = toks[prev_code(toks, k_end)].end
        if ret_binder:
            ed.insert(rt_a, f"({ret_binder}: ")
            ed.insert(rt_b, ")")
    if "rename" in opts:
        ed.replace(toks[k_name].start, toks[k_name].end, opts["rename"])
    sec = lambda kind_, arg=None: [x for x in secs if x.kind == kind_ and (arg is None or x.arg == arg)]
    sig_txt = "\n".join(x.text for x in sec("sig"))
    if sig_txt.strip():
        ed.insert(toks[k_body].start, "\n" + sig_txt + "\n")
    entry = "\n".join(x.text for x in sec("entry"))
    ghost = "\n".join(x.text for x in sec("ghost"))
    exit_ = "\n".join(x.text for x in sec("exit"))
    body_in = toks[k_body].end
    if ghost.strip(): ed.insert(body_in, "\n" + ghost + "\n")
    if exit_.strip():
        ed.insert(body_in, ("let r__ = {" if has_ret else "{"))
    if entry.strip(): ed.insert(body_in, "\n" + entry + "\n")
    if exit_.strip():
        ed.insert(toks[k_close].start, "};\n" + exit_ + "\n" + ("r__\n" if has_ret else ""))
    loops = find_loops(toks, k_body + 1, k_close)
    if "R1" in rules:
        for (lk, lo_, lc_) in loops:
            if toks[lk].text != "for": continue
            a1 = next_code(toks, lk)
            a2 = next_code(toks, a1)
            a3 = next_code(toks, a2)
            if toks[a1].text == "(":
                # `for (&a, b) in E {` -> `for (a__r, b) in E { let a = *a__r;`
                b1 = next_code(toks, a1); b2 = next_code(toks, b1)
                if toks[b1].text == "&" and toks[b2].kind == "ident":
                    v = toks[b2].text
                    ed.replace(toks[b1].start, toks[b2].end, v + "__r")
                    lets = f" let {v} = *{v}__r;"
                    # second component by reference as well: `for (&a, &b) in &M {` -> `for (a__r, b__r) in M.iter() { let a = *a__r; let b = *b__r;`
                    c0 = next_code(toks, b2)
                    if toks[c0].text == ",":
                        c1 = next_code(toks, c0); c2 = next_code(toks, c1); c3 = next_code(toks, c2); c4 = next_code(toks, c3)
                        if toks[c1].text == "&" and toks[c2].kind == "ident" and toks[c3].text == ")" and toks[c4].text == "in":
                            w = toks[c2].text
                            ed.replace(toks[c1].start, toks[c2].end, w + "__r")
                            lets += f" let {w} = *{w}__r;"
                            last = prev_code(toks, lo_)
                            expr = text[toks[c4].end:toks[last].end].strip()
                            amp = next_code(toks, c4)
                            if toks[amp].text == "&" and re.fullmatch(r"&[\w\.]+", expr):
                                ed.replace(toks[amp].start, toks[amp].end, "")
                                ed.insert(toks[last].end, ".iter()")
                    ed.insert(toks[lo_].end, lets)
                    log.append(("R1", where, text[toks[lk].start:toks[lo_].end]))
                continue
            if toks[a1].text == "&" and toks[a2].text == "(":
                # `for &(a, b) in E {` -> `for p__r in E.iter() { let (a, b) = *p__r;`
                pe = match_forward(toks, a2)
                a3 = next_code(toks, pe)
                if toks[a3].text != "in": continue
                pat = text[toks[a2].start:toks[pe].end]
                pv = f"p__{lk}"
                ed.replace(toks[a1].start, toks[pe].end, pv)
                last = prev_code(toks, lo_)
                expr = text[toks[a3].end:toks[last].end].strip()
                if not expr.endswith(".iter()"):
                    ed.insert(toks[last].end, ".iter()")
                    amp = next_code(toks, a3)
                    if toks[amp].text == "&" and re.fullmatch(r"&[\w\.]+", expr):
                        ed.replace(toks[amp].start, toks[amp].end, "")
                ed.insert(toks[lo_].end, f" let {pat} = *{pv};")
                log.append(("R1", where, text[toks[lk].start:toks[lo_].end]))
                continue
            if toks[a1].text == "&" and toks[a2].kind == "ident" and toks[a3].text == "in":
                v = toks[a2].text
                ed.replace(toks[a1].start, toks[a2].end, v + "__r")
                last = prev_code(toks, lo_)
                expr = text[toks[a3].end:toks[last].end].strip()
                if not expr.endswith(".iter()"):
                    ed.insert(toks[last].end, ".iter()")
                    amp = next_code(toks, a3)
                    if toks[amp].text == "&" and re.fullmatch(r"&[\w\.]+", expr):
                        ed.replace(toks[amp].start, toks[amp].end, "")   # `&v` -> `v.iter()`
                ed.insert(toks[lo_].end, f" let {v} = *{v}__r;")
                log.append(("R1", where, text[toks[lk].start:toks[lo_].end]))
    if "R25" in rules:
        # `for x in NAME {` / `for x in &NAME.field {` (slice or &Vec) -> explicit `.iter()` (IntoIterator for &[T] / &Vec<T>)
        for (lk, lo_, lc_) in loops:
            if toks[lk].text != "for": continue
            a1 = next_code(toks, lk)
            if toks[a1].text == "&" and "R1" in rules: continue
            if toks[a1].text == "(" and "R5" in rules and toks[next_code(toks, a1)].text != "&": continue   # handled by R5
            a2 = next_code(toks, match_forward(toks, a1)) if toks[a1].text == "(" else next_code(toks, a1)
            if toks[a2].text != "in": continue
            last = prev_code(toks, lo_)
            expr = text[toks[a2].end:toks[last].end].strip()
            if re.fullmatch(r"&?[\w\.]+", expr) and not expr.endswith(")") and ".." not in expr:
                amp = next_code(toks, a2)
                if toks[amp].text == "&": ed.replace(toks[amp].start, toks[amp].end, "")
                ed.insert(toks[last].end, ".iter()")
                log.append(("R25", where, text[toks[lk].start:toks[lo_].start].strip()))
    if "R20" in rules:
        for (lk, lo_, lc_) in loops:
            if toks[lk].text != "for": continue
            a1 = next_code(toks, lk); a2 = next_code(toks, a1)
            if toks[a1].kind != "ident" or toks[a2].text != "in": continue
            last = prev_code(toks, lo_)
            expr = text[toks[a2].end:toks[last].end].strip()
            if not expr.endswith(".bytes()"): continue
            v = toks[a1].text
            ed.replace(toks[a1].start, toks[a1].end, v + "__r")
            # `.bytes()` -> `.as_bytes().iter()`
            b3 = last; b2 = prev_code(toks, b3); b1 = prev_code(toks, b2)
            ed.replace(toks[b1].start, toks[b3].end, "as_bytes().iter()")
            ed.insert(toks[lo_].end, f" let {v} = *{v}__r;")
            log.append(("R20", where, text[toks[lk].start:toks[lo_].end]))
    if "R2" in rules:
        # `for (A, B, ..) in &X[lo..=hi] {` -> inclusive index loop with field borrows (`_` components skipped)
        for n_, (lk, lo_, lc_) in enumerate(loops):
            if toks[lk].text != "for": continue
            hdr = text[toks[lk].start:toks[lo_].start]
            m = re.match(r"for\s+\(([^)]*)\)\s+in\s+&(\w+)\[(.+?)\.\.=(.+?)\]\s*$", hdr, re.S)
            m3 = re.match(r"for\s+\(([^)]*)\)\s+in\s+&([\w\.]+)\s*$", hdr, re.S)
            if m:
                names = [x.strip() for x in m.group(1).split(",")]
                xe, lo_e, hi_e = m.group(2), m.group(3).strip(), m.group(4).strip()
            elif m3 and "&" not in m3.group(1):
                names = [x.strip() for x in m3.group(1).split(",")]
                xe = m3.group(2)
                if any(x.kind == "ident" and x.text == "continue" for x in toks[lo_:lc_]):
                    raise ExtractError(f"unsupported-construct: {where}: `continue` inside a loop rewritten by R2")
                kv = f"k__{n_}"
                last = prev_code(toks, lo_)
                ed.replace(toks[lk].start, toks[last].end, f"let mut {kv}: usize = 0; while {kv} < {xe}.len()")
                lets = "".join(f" let {nm} = &{xe}[{kv}].{ix};" for ix, nm in enumerate(names) if nm != "_")
                ed.insert(toks[lo_].end, lets)
                ed.insert(toks[lc_].start, f" {kv} += 1; ")
                log.append(("R2", where, hdr.strip()))
                continue
            else: continue
            if any(x.kind == "ident" and x.text == "continue" for x in toks[lo_:lc_]):
                raise ExtractError(f"unsupported-construct: {where}: `continue` inside a loop rewritten by R2")
            kv = f"k__{n_}"
            last = prev_code(toks, lo_)
            ed.replace(toks[lk].start, toks[last].end, f"let mut {kv}: usize = {lo_e}; while {kv} <= {hi_e}")
            lets = "".join(f" let {nm} = &{xe}[{kv}].{ix};" for ix, nm in enumerate(names) if nm != "_")
            ed.insert(toks[lo_].end, lets)
            ed.insert(toks[lc_].start, f" {kv} += 1; ")
            log.append(("R2", where, hdr.strip()))
    if "R5" in rules:
        # consuming iteration over a map: `for (k, v) in M {` -> `for (k__r, v__r) in M.iter() { let k = *k__r; let v = *v__r;`
        for n_, (lk, lo_, lc_) in enumerate(loops):
            if toks[lk].text != "for": continue
            a1 = next_code(toks, lk)
            if toks[a1].text != "(": continue
            a2 = match_forward(toks, a1)
            a3 = next_code(toks, a2)
            if toks[a3].text != "in": continue
            last = prev_code(toks, lo_)
            expr = text[toks[a3].end:toks[last].end].strip()
            names = [x.text for x in toks[a1 + 1:a2] if x.kind == "ident"]
            if len(names) != 2 or expr.endswith(")") or expr.startswith("&"): continue
            # the consumed map must be dead after the loop
            base_id = expr.split(".")[0]
            if re.search(r"\b" + re.escape(expr) + r"\b", text[toks[lc_].end:]):
                raise ExtractError(f"unsupported-construct: {where}: R5 needs `{expr}` dead after the loop")
            ed.replace(toks[a1].start, toks[a2].end, f"({names[0]}__r, {names[1]}__r)")
            ed.insert(toks[last].end, ".iter()")
            ed.insert(toks[lo_].end, f" let {names[0]} = *{names[0]}__r; let {names[1]} = *{names[1]}__r;")
            log.append(("R5", where, text[toks[lk].start:toks[lo_].end]))
    if "R2" in rules:
        for n_, (lk, lo_, lc_) in enumerate(loops):
            if toks[lk].text != "for": continue
            a1 = next_code(toks, lk)
            if toks[a1].text != "(": continue
            a2 = match_forward(toks, a1)
            a3 = next_code(toks, a2)
            if toks[a3].text != "in": continue
            last = prev_code(toks, lo_)
            expr = text[toks[a3].end:toks[last].end].strip()
            pat = [x for x in toks[a1 + 1:a2] if x.kind not in ("ws", "lc", "bc")]
            names = [x.text for x in pat if x.text != ","]
            kv = f"k__{n_}"
            # `continue` of THIS loop must not skip the index increment appended at the end of the body:
            # `continue;` -> `{ k += 1; continue; }` (a `continue` inside a nested loop belongs to that loop and is left alone)
            conts = []
            for q_ in range(lo_ + 1, lc_):
                if toks[q_].kind == "ident" and toks[q_].text == "continue":
                    if any(lo2 < q_ < lc2 and (lk2, lo2, lc2) != (lk, lo_, lc_) and lo_ < lo2 for (lk2, lo2, lc2) in loops): continue
                    nx_ = next_code(toks, q_)
                    if nx_ is None or toks[nx_].text != ";":
                        raise ExtractError(f"unsupported-construct: {where}: labelled or expression `continue` inside a loop rewritten by R2")
                    conts.append((q_, nx_))
            if expr.endswith(".iter().enumerate()"):
                base_e = expr[:-len(".iter().enumerate()")]
                if len(names) == 2:
                    lets = f" let {names[0]} = {kv}; let {names[1]} = &{base_e}[{kv}];"
                elif len(names) == 3 and names[1] == "&":
                    lets = f" let {names[0]} = {kv}; let {names[2]} = {base_e}[{kv}];"
                else: continue
            elif expr.endswith(".iter()") and len(names) == 2:
                base_e = expr[:-len(".iter()")]
                lets = f" let {names[0]} = &{base_e}[{kv}].0; let {names[1]} = &{base_e}[{kv}].1;"
            else: continue
            ed.replace(toks[lk].start, toks[last].end, f"let mut {kv}: usize = 0; while {kv} < {base_e}.len()")
            ed.insert(toks[lo_].end, lets)
            ed.insert(toks[lc_].start, f" {kv} += 1; ")
            for (q_, nx_) in conts:
                ed.replace(toks[q_].start, toks[nx_].end, f"{{ {kv} += 1; continue; }}")
            log.append(("R2", where, text[toks[lk].start:toks[lo_].end]))
    if "R3" in rules:
        # `for (i, b) in X.iter_mut().enumerate() {..*b..}` / `for b in X.iter_mut() {..*b..}` -> index loop over X with X[i]
        for n_, (lk, lo_, lc_) in enumerate(loops):
            if toks[lk].text != "for": continue
            hdr = text[toks[lk].start:toks[lo_].start]
            m = re.match(r"for\s+\(\s*(\w+)\s*,\s*(\w+)\s*\)\s+in\s+(.+?)\.iter_mut\(\)\.enumerate\(\)\s*$", hdr, re.S)
            m2 = re.match(r"for\s+(\w+)\s+in\s+(.+?)\.iter_mut\(\)\s*$", hdr, re.S)
            m5 = re.match(r"for\s+(\w+)\s+in\s+(.+?)\.iter_mut\(\)\.rev\(\)\s*$", hdr, re.S)
            if m5:
                # descending: `for b in X.iter_mut().rev() { ..*b.. }` -> `let mut k = X.len(); while k > 0 { k -= 1; ..X[k].. }`
                bv, xe = m5.group(1), m5.group(2)
                kv = f"k__{n_}"
                last = prev_code(toks, lo_)
                ed.replace(toks[lk].start, toks[last].end, f"let mut {kv}: usize = {xe}.len(); while {kv} > 0")
                ed.insert(toks[lo_].end, f" {kv} -= 1;")
                q = lo_ + 1
                while q < lc_:
                    if toks[q].kind == "punct" and toks[q].text == "*":
                        nx = next_code(toks, q)
                        if nx is not None and toks[nx].kind == "ident" and toks[nx].text == bv:
                            ed.replace(toks[q].start, toks[nx].end, f"{xe}[{kv}]")
                            q = nx + 1; continue
                    q += 1
                log.append(("R3", where, hdr.strip()))
                continue
            if m: iv, bv, xe = m.group(1), m.group(2), m.group(3)
            elif m2: iv, bv, xe = None, m2.group(1), m2.group(2)
            else: continue
            if any(x.kind == "ident" and x.text == "continue" for x in toks[lo_:lc_]):
                raise ExtractError(f"unsupported-construct: {where}: `continue` inside a loop rewritten by R3")
            kv = f"k__{n_}"
            last = prev_code(toks, lo_)
            ed.replace(toks[lk].start, toks[last].end, f"let mut {kv}: usize = 0; while {kv} < {xe}.len()")
            if iv: ed.insert(toks[lo_].end, f" let {iv} = {kv};")
            q = lo_ + 1
            while q < lc_:
                if toks[q].kind == "punct" and toks[q].text == "*":
                    nx = next_code(toks, q)
                    if nx is not None and toks[nx].kind == "ident" and toks[nx].text == bv:
                        ed.replace(toks[q].start, toks[nx].end, f"{xe}[{kv}]")
                        q = nx + 1; continue
                q += 1
            ed.insert(toks[lc_].start, f" {kv} += 1; ")
            log.append(("R3", where, hdr.strip()))
    if "R4" in rules:
        for n_, (lk, lo_, lc_) in enumerate(loops):
            if toks[lk].text != "for": continue
            hdr = text[toks[lk].start:toks[lo_].start]
            m = re.match(r"for\s+(\w+)\s+in\s+\(\s*(.+?)\s*\.\.\s*(.+?)\s*\)\s*\.rev\(\)\s*$", hdr, re.S)
            m4 = re.match(r"for\s+(\w+)\s+in\s+(.+?)\s*\.into_iter\(\)\s*\.rev\(\)\s*$", hdr, re.S)
            if m4:
                # `for x in E.into_iter().rev() {` -> descending index loop over the Vec E (elements are Copy in the units that use this)
                v, e_ = m4.group(1), " ".join(m4.group(2).split())
                vv, kv = f"v__{n_}", f"i__{n_}"
                last = prev_code(toks, lo_)
                ed.replace(toks[lk].start, toks[last].end, f"let {vv} = {e_}; let mut {kv} = {vv}.len(); while {kv} > 0")
                ed.insert(toks[lo_].end, f" {kv} -= 1; let {v} = {vv}[{kv}];")
                log.append(("R4", where, " ".join(hdr.split())))
                continue
            if not m: continue
            v, lo_e, hi_e = m.group(1), m.group(2), m.group(3)
            kv = f"{v}__{n_}"
            last = prev_code(toks, lo_)
            ed.replace(toks[lk].start, toks[last].end, f"let mut {kv} = {hi_e}; while {kv} > {lo_e}")
            ed.insert(toks[lo_].end, f" {kv} -= 1; let {v} = {kv};")
            log.append(("R4", where, hdr.strip()))
    if "R29" in rules:
        # `for x in E {` where E is a call returning an owned Vec of Copy elements -> ascending index loop that takes the element
        # and advances the index FIRST, so that a `continue` in the body (which Verus for-loops do not accept) is harmless
        for n_, (lk, lo_, lc_) in enumerate(loops):
            if toks[lk].text != "for": continue
            hdr = text[toks[lk].start:toks[lo_].start]
            m = re.match(r"for\s+(\w+)\s+in\s+(\w[\w:\.]*\(.*\))\s*$", hdr, re.S)
            if not m or ".iter()" in m.group(2) or ".rev()" in m.group(2) or ".enumerate()" in m.group(2): continue
            v, e_ = m.group(1), " ".join(m.group(2).split())
            vv, kv = f"v__{n_}", f"i__{n_}"
            last = prev_code(toks, lo_)
            ed.replace(toks[lk].start, toks[last].end, f"let {vv} = {e_}; let mut {kv}: usize = 0; while {kv} < {vv}.len()")
            ed.insert(toks[lo_].end, f" let {v} = {vv}[{kv}]; {kv} += 1;")
            log.append(("R29", where, " ".join(hdr.split())))
    if "R30" in rules:
        # `for c in E.chunks_exact(N) {` / `for c in E.chunks(N) {` -> index loop over the chunk number (definition of slice::chunks_exact /
        # slice::chunks: chunk k is E[k*N .. k*N+N], the last chunk of `chunks` is cut at E.len()); the index is advanced first
        for n_, (lk, lo_, lc_) in enumerate(loops):
            if toks[lk].text != "for": continue
            hdr = text[toks[lk].start:toks[lo_].start]
            m = re.match(r"for\s+(\w+)\s+in\s+([\w\.]+)\.chunks(_exact)?\(\s*(\w+)\s*\)\s*$", hdr, re.S)
            if not m: continue
            v, e_, exact, n = m.group(1), m.group(2), m.group(3), m.group(4)
            cn, ci = f"c__n{n_}", f"c__i{n_}"
            last = prev_code(toks, lo_)
            if exact:
                ed.replace(toks[lk].start, toks[last].end, f"let {cn}: usize = {e_}.len() / {n}; let mut {ci}: usize = 0; while {ci} < {cn}")
                ed.insert(toks[lo_].end, f" let {v} = &{e_}[{ci} * {n}..{ci} * {n} + {n}]; {ci} += 1;")
            else:
                ed.replace(toks[lk].start, toks[last].end, f"let {cn}: usize = {e_}.len() / {n} + (if {e_}.len() % {n} != 0 {{ 1 }} else {{ 0 }}); let mut {ci}: usize = 0; while {ci} < {cn}")
                ed.insert(toks[lo_].end, f" let {v} = &{e_}[{ci} * {n}..(if {ci} * {n} + {n} <= {e_}.len() {{ {ci} * {n} + {n} }} else {{ {e_}.len() }})]; {ci} += 1;")
            log.append(("R30", where, " ".join(hdr.split())))
    for x in secs:
        if x.kind in ("loop", "loop_begin", "loop_end", "after", "before"):
            if x.arg.startswith("~"):
                hits = [n for n, (a_, b_, c_) in enumerate(loops) if x.arg[1:] in text[toks[a_].start:toks[b_].start]]
                kidx = hits[0] if len(hits) == 1 else len(loops) + 1
            else:
                kidx = int(x.arg)
            if kidx >= len(loops):
                if "opt" in x.opts or x.opts.get("opt"):
                    log.append(("skip", where, f"optional {x.kind} {kidx}: loop not present"))
                    continue
                raise ExtractError(f"lost-anchor: {where}: loop {kidx} not found ({len(loops)} loops)")
            lk, lo_, lc_ = loops[kidx]
            if x.kind == "loop":
                ed.insert(toks[lo_].start, "\n" + x.text + "\n")
                if "iter" in x.opts:
                    # for PAT in EXPR  ->  for PAT in it: EXPR
                    q = lk
                    depth = 0
                    while q < lo_:
                        tq = toks[q]
                        if tq.kind == "punct" and tq.text in OPEN_SET: depth += 1
                        elif tq.kind == "punct" and tq.text in CLOSE_SET: depth -= 1
                        elif tq.kind == "ident" and tq.text == "in" and depth == 0: break
                        q += 1
                    ed.insert(toks[q].end, f" {x.opts['iter']}:")
            elif x.kind == "before":
                q = prev_code(toks, lk)
                pos_ = toks[lk].start
                if q is not None and toks[q].text == ":":  # labelled loop
                    pos_ = toks[prev_code(toks, q)].start
                ed.insert(pos_, "\n" + x.text + "\n")
            elif x.kind == "loop_begin":
                ed.insert(toks[lo_].end, "\n" + x.text + "\n")
            elif x.kind == "loop_end":
                ed.insert(toks[lc_].start, "\n" + x.text + "\n")
            else:
                ed.insert(toks[lc_].end, "\n" + x.text + "\n")
        elif x.kind == "guard_else":
            # k-th match-arm guard `PAT if COND => BODY` -> `PAT => { if COND { BODY } else { <overlay text> } }`.
            # The overlay text is what the remaining arms do for this pattern when the guard fails (stated in the overlay);
            # needed because Verus 0.2026.09.13 crashes on guards that read mutable locals.
            kidx = int(x.arg)
            guards = []
            q = k_body + 1
            while q < k_close:
                if toks[q].kind == "ident" and toks[q].text == "if":
                    pq = prev_code(toks, q)
                    if pq is not None and (toks[pq].kind in ("char", "num", "str") or toks[pq].text in (")", "_") or (toks[pq].kind == "ident" and toks[pq].text not in ("else", "return", "in", "let", "match"))):
                        # scan forward for `=>` before `{` at depth 0
                        depth = 0; e = q + 1; arrow = None
                        while e < k_close:
                            tt = toks[e]
                            if tt.kind == "punct" and tt.text in ("(", "["): depth += 1
                            elif tt.kind == "punct" and tt.text in (")", "]"): depth -= 1
                            elif tt.kind == "punct" and tt.text == "{" and depth == 0: break
                            elif tt.kind == "punct" and tt.text == "=>" and depth == 0: arrow = e; break
                            elif tt.kind == "punct" and tt.text == ";" and depth == 0: break
                            e += 1
                        if arrow is not None: guards.append((q, arrow))
                q += 1
            if kidx >= len(guards):
                if x.opts.get("opt"): continue
                raise ExtractError(f"lost-anchor: {where}: match guard {kidx} not found")
            gq, arrow = guards[kidx]
            cond = text[toks[gq].end:toks[arrow].start].strip()
            b0 = next_code(toks, arrow)
            if toks[b0].text == "{":
                b1 = match_forward(toks, b0)
                ed.replace(toks[gq].start, toks[arrow].start, "")
                ed.insert(toks[b0].start, "{ if " + cond + " ")
                ed.insert(toks[b1].end, " else { " + x.text.strip() + " } }")
            else:
                depth = 0; e = b0
                while e < k_close:
                    tt = toks[e]
                    if tt.kind == "punct" and tt.text in OPEN_SET: depth += 1
                    elif tt.kind == "punct" and tt.text in CLOSE_SET:
                        if depth == 0: break
                        depth -= 1
                    elif tt.kind == "punct" and tt.text == "," and depth == 0: break
                    e += 1
                b1 = prev_code(toks, e)
                ed.replace(toks[gq].start, toks[arrow].start, "")
                ed.insert(toks[b0].start, "{ if " + cond + " { ")
                ed.insert(toks[b1].end, " } else { " + x.text.strip() + " } }")
            log.append(("G1", where, f"match guard `if {cond}` moved into the arm body; else-branch: {x.text.strip()}"))
        elif x.kind == "annot":
            # type annotation on `let [mut] NAME =` (the invariant mentions NAME before rustc can infer its type)
            nm = x.arg
            ty = x.text.strip() or " ".join(x.opts.get("ty", "").split())
            done_ = False
            q = k_body + 1
            while q < k_close:
                if toks[q].kind == "ident" and toks[q].text == "let":
                    n1 = next_code(toks, q)
                    if toks[n1].text == "mut": n1 = next_code(toks, n1)
                    n2 = next_code(toks, n1)
                    if toks[n1].kind == "ident" and toks[n1].text == nm and toks[n2].text == "=":
                        ed.insert(toks[n1].end, ": " + ty)
                        log.append(("annot", where, f"let {nm}: {ty}"))
                        done_ = True; break
                q += 1
            if not done_ and not x.opts.get("opt"):
                raise ExtractError(f"lost-anchor: {where}: `let {nm} =` not found for annotation")
        elif x.kind == "after_let":
            # immediately after the statement `let [mut] NAME ... ;` (first declaration of NAME in the body)
            nm = x.arg
            want_k = 1
            if "#" in nm: nm, want_k = nm.split("#")[0], int(nm.split("#")[1])   # NAME#k = k-th declaration of NAME
            seen_k = 0
            hit = None
            q = k_body + 1
            while q < k_close:
                if toks[q].kind == "ident" and toks[q].text == "let":
                    n1 = next_code(toks, q)
                    if toks[n1].text == "mut": n1 = next_code(toks, n1)
                    if toks[n1].kind == "ident" and toks[n1].text == nm:
                        seen_k += 1
                    if toks[n1].kind == "ident" and toks[n1].text == nm and seen_k == want_k:
                        depth = 0; e = n1
                        while e < k_close:
                            tt = toks[e]
                            if tt.kind == "punct" and tt.text in OPEN_SET: depth += 1
                            elif tt.kind == "punct" and tt.text in CLOSE_SET: depth -= 1
                            elif tt.kind == "punct" and tt.text == ";" and depth == 0: break
                            e += 1
                        hit = e; break
                q += 1
            if hit is None:
                if x.opts.get("opt"): 
                    log.append(("skip", where, f"optional after_let {nm}: not present")); continue
                raise ExtractError(f"lost-anchor: {where}: `let {nm}` not found")
            ed.insert(toks[hit].end, "\n" + x.text + "\n")
        elif x.kind == "closure":
            cl = find_closures(toks, k_body + 1, k_close)
            kidx = int(x.arg)
            if kidx >= len(cl):
                raise ExtractError(f"lost-anchor: {where}: closure {kidx} not found")
            fb, lb, b0, b1, blk = cl[kidx]
            ed.replace(toks[fb].start, toks[lb].end, x.text.strip() + " ")
            if not blk:
                ed.insert(toks[b0].start, "{ ")
                ed.insert(toks[b1].end, " }")
            log.append(("A1", where, text[toks[fb].start:toks[b1].end]))
    apply_common_rules(text, ed, rules, log, where)
    _apply_substs(text, ed, secs, log, where)
    t, offs = ed.render()
    fmeta = dict(name=opts.get("rename", name), path=pos[1], file="oxidize-pdf-core/src/" + pos[0],
                 line=sf.line_of(sf.toks[kw].start), kind=kind,
                 has_requires=bool(re.search(r"\brequires\b", sig_txt)))
    # vacuity sibling
    if opts.get("noterm"):
        # termination of this (mutually) recursive exec function is NOT proved; recorded as an assumption
        pre_ = "#[verifier::exec_allows_no_decreases_clause]\n"
        t, offs = pre_ + t, [None] * len(pre_) + offs
        log.append(("noterm", where, "termination not proved (exec_allows_no_decreases_clause)"))
    if opts.get("spinoff") or os.environ.get("VERIF_SPINOFF_ALL"):
        # own solver process for this function: its query no longer depends on what was verified before it in the file
        pre_ = "#[verifier::spinoff_prover]\n"
        t, offs = pre_ + t, [None] * len(pre_) + offs
    fmeta["main_lines"] = t.count("\n") + 1
    if fmeta["has_requires"] and "novac" not in pos and "novac" not in opts:
        rendered_sig, _ = _render_sig_only(text, toks, k_name, k_body, opts, sig_txt, has_ret)
        if "R11" in rules:
            rendered_sig = re.sub(r"\b(?:crate|super)::(?:[a-z_][a-z0-9_]*::)*", "", rendered_sig)
        if any(l_[0] == "R27" and l_[1] == where and "&mut self" in l_[2] for l_ in log):
            rendered_sig = re.sub(r"\(\s*&self\b", "(&mut self", rendered_sig, count=1)
        t += "\n" + rendered_sig
        offs += [None] * (len(rendered_sig) + 1)
        fmeta["has_vac"] = True
    return t, offs, sf, fmeta


def _render_sig_only(text, toks, k_name, k_body, opts, sig_txt, has_ret):
    nm = opts.get("rename", toks[k_name].text)
    sig = "fn " + nm + "__vac" + text[toks[k_name].end:toks[k_body].start]
    m = re.search(r"\b(ensures|returns|decreases)\b", sig_txt)
    req = sig_txt[:m.start()] if m else sig_txt
    req = req.rstrip().rstrip(",")
    body = "{ assert(false); vstd::pervasive::unreached() }"
    return f"#[verifier::exec_allows_no_decreases_clause]\n{sig}\n{req}\n{body}\n", None


def _apply_substs(text, ed, secs, log, where):
    for x in secs:
        if x.kind != "subst": continue
        body = x.text
        m = re.match(r"\s*<<<\n(.*?)\n===\n(.*?)\n>>>\s*$", body, re.S)
        if not m: raise ExtractError(f"{where}: malformed subst")
        old, new = m.group(1), m.group(2)
        if (x.arg or "").startswith("all:"):
            # every occurrence (at least one) of an expression is replaced
            if text.count(old) < 1:
                raise ExtractError(f"lost-anchor: {where}: subst anchor occurs 0x: {old[:60]!r}")
            pos_ = 0
            while True:
                a = text.find(old, pos_)
                if a < 0: break
                ed.replace(a, a + len(old), new); pos_ = a + len(old)
            log.append(("S", where, f"{x.arg}: {old[:80]!r} -> {new[:80]!r} ({text.count(old)}x)"))
            continue
        if (x.arg or "").startswith("opt:") and text.count(old) == 0:
            # an expression-level rewrite whose expression is no longer there: nothing to rewrite, the code is checked as it stands
            log.append(("skip", where, f"optional subst: {old[:60]!r} not present"))
            continue
        if text.count(old) != 1:
            raise ExtractError(f"lost-anchor: {where}: subst anchor occurs {text.count(old)}x: {old[:60]!r}")
        a = text.index(old)
        ed.replace(a, a + len(old), new)
        log.append(("S", where, f"{x.arg}: {old[:80]!r} -> {new[:80]!r}"))


if __name__ == "__main__":
    r = assemble(sys.argv[1])
    sys.stdout.write(r["text"])
    for l in r["log"]: print("//", l, file=sys.stderr)
