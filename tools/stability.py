#!/usr/bin/env python3
"""Solver-stability probe (development aid, not a check): assemble a unit once, verify it under N different crate names
(the crate name prefixes every SMT symbol, so this perturbs the solver without changing the query's meaning) and report
every function whose result varies or whose resource count comes within a factor 4 of the limit.
usage: stability.py <unit>|all [N]"""
import json, os, shutil, subprocess, sys, concurrent.futures as cf
sys.path.insert(0, os.path.dirname(os.path.abspath(__file__)))
import assemble as asm
VERIF = os.path.dirname(os.path.dirname(os.path.abspath(__file__)))
BUILD = os.path.join(VERIF, "build")

def one(unit, text, k, extra):
    d = os.path.join(BUILD, f"stab_{unit}_{k}"); os.makedirs(d, exist_ok=True)
    name = unit if k == 0 else f"{unit}_q{k * 7919}"
    p = os.path.join(d, name + ".rs"); open(p, "w").write(text)
    r = subprocess.run(["verus", p, "--output-json", "--time-expanded", "--multiple-errors", "20"] + extra, capture_output=True, text=True, cwd=d)
    shutil.rmtree(d, ignore_errors=True)
    out = {}
    try: j = json.loads(r.stdout)
    except Exception: return {"?": (False, 0)}
    for m in j.get("times-ms", {}).get("smt", {}).get("smt-run-module-times", []):
        for f in m.get("function-breakdown", []):
            fn = f["function"].split("::", 1)[1]
            ok, rl = out.get(fn, (True, 0))
            out[fn] = (ok and f["success"], max(rl, f["rlimit"]))
    return out

def main():
    units = sys.argv[1]
    n = int(sys.argv[2]) if len(sys.argv) > 2 else 8
    extra = sys.argv[3:]
    us = sorted(f[:-3] for f in os.listdir(os.path.join(VERIF, "units")) if f.endswith(".vu")) if units == "all" else units.split(",")
    for u in us:
        text = asm.assemble(os.path.join(VERIF, "units", u + ".vu"))["text"]
        with cf.ThreadPoolExecutor(max_workers=8) as ex:
            rs = list(ex.map(lambda k: one(u, text, k, extra), range(n)))
        fns = sorted({f for r in rs for f in r})
        bad = []
        for f in fns:
            if f.endswith("__vac"): continue
            oks = [r.get(f, (None, 0))[0] for r in rs]; rl = [r.get(f, (None, 0))[1] for r in rs]
            if len(set(oks)) > 1 or max(rl) > 7_000_000 or (min(rl) > 0 and max(rl) > 5 * min(rl) and max(rl) > 1_000_000):
                bad.append((f, oks.count(True), len(oks), min(rl), max(rl)))
        print(f"{u}: {len(fns)} fns, max rlimit {max((r[f][1] for r in rs for f in r), default=0)}" + ("" if not bad else "  FRAGILE:"))
        for b in bad: print("    %s ok=%d/%d rlimit %d..%d" % b)
        sys.stdout.flush()

main()
