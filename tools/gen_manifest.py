#!/usr/bin/env python3
"""Regenerate /verif/MANIFEST.json from tools/registry.py (claimed properties) and tools/not_applicable.json."""
import json, os, sys
HERE = os.path.dirname(os.path.abspath(__file__)); VERIF = os.path.dirname(HERE)
sys.path.insert(0, HERE)
import registry

na = json.load(open(os.path.join(HERE, "not_applicable.json")))
props = [json.loads(l)["id"] for l in open(os.path.join(VERIF, "properties.jsonl")) if l.strip()]
checks = []
for pid in props:
    if pid not in registry.PROPS: continue
    c = registry.PROPS[pid]
    engines = []
    if c.get("verus"): engines.append("Verus (z3) on functions extracted from /repo each run")
    if c.get("kani"): engines.append("Kani/CBMC in place (complete domains, loop-free)")
    checks.append(dict(
        property_id=pid,
        quick_cmd=f"./check {pid} --tier quick",
        thorough_cmd=f"./check {pid} --tier thorough",
        evidence_file=f"/verif/evidence/{pid}.json",
        replay_cmd_template=f"./check {pid} --replay {{path}}",
        engine=" + ".join(engines),
        level_claimed=dict(category="proof", text=c.get("level_text", "contracts on the listed real functions discharged for all inputs; the end-to-end property is decided only as far as those contracts carry it"),
                           design_ref=f"DESIGN.md section 4 {pid}"),
        level_note=c.get("level_note", "") or ("trusted: vstd std specs, listed assume_specification/external_body stubs, extraction rules; not decided: " + c.get("not_decided", "")),
        technique=c.get("technique", "contract-based deductive verification (Verus/Kani) of the real functions"),
    ))
nas = []
for pid in props:
    if pid in registry.PROPS: continue
    nas.append(dict(property_id=pid, reason=na.get(pid, "no deductive unit built for this property yet; not claimed")))
m = dict(
    version=1,
    setup_cmd="./setup.sh",
    hooks=dict(guard="cfg(kani) and cfg(oxidizepdf_verif)",
               enable="cargo kani sets cfg(kani); the replay crate is built with RUSTFLAGS='--cfg oxidizepdf_verif'",
               baseline_off_cmd="cd /repo && cargo nextest run --workspace --no-fail-fast --tool-config-file pb:/w/lib/nextest.toml --profile pb --test-threads 8 --offline",
               source_commits=json.load(open(os.path.join(HERE, "hook_commits.json"))),
               add_only=True),
    engines=[dict(name="verus-extract", path="/verif/tools/check.py", serves_properties=[p for p in props if p in registry.PROPS and registry.PROPS[p].get("verus")],
                  kind_free_text="Verus on functions cut mechanically from /repo on every run, contracts spliced from /verif/units/*.vu"),
             dict(name="kani-inplace", path="/verif/tools/kani_engine.py", serves_properties=[p for p in props if p in registry.PROPS and registry.PROPS[p].get("kani")],
                  kind_free_text="cargo kani on the real crate; harnesses in /verif/hooks, complete input domains only")],
    checks=checks,
    notes="see DESIGN.md; exit 2 = undecided (lost anchor / unsupported construct / solver limit), never an alarm",
    not_applicable=nas,
)
json.dump(m, open(os.path.join(VERIF, "MANIFEST.json"), "w"), indent=1)
print("claimed", [c["property_id"] for c in checks]); print("not_applicable", [n["property_id"] for n in nas])
