#!/bin/sh
# development helper: second confirmation queue (own lock); skips seeds that already have a confirm.log
while ! mkdir /tmp/seed/.confirm_lock2 2>/dev/null; do sleep 20; done
trap 'rmdir /tmp/seed/.confirm_lock2' EXIT
for p in "$@"; do
  for k in 1 2; do
    [ -d /tmp/seed/${p}_out/$k ] && [ ! -f /tmp/seed/${p}_out/$k/confirm.log ] && CARGO_BUILD_JOBS=8 /verif/tools/confirm_seed.sh $p $k
  done
done
