"""Stand-ins (engine E): native evaluation of the REAL code in /repo through /verif/replay. Never counted as proof.
Ec = complete finite domain, Eb = stated bounded domain."""
import json
import os
import shutil
import subprocess
import time

REPLAY = "/verif/replay"
TARGET = "/verif/build/replay-target"
BIN = os.path.join(TARGET, "debug", "verif-replay")
_built = {"ok": None}


def build():
    if _built["ok"] is not None: return _built["ok"]
    env = dict(os.environ); env["CARGO_NET_OFFLINE"] = "true"; env["CARGO_TARGET_DIR"] = TARGET
    env["PATH"] = env.get("PATH", "") + ":/root/.cargo/bin"
    try:
        shutil.copy("/repo/Cargo.lock", os.path.join(REPLAY, "Cargo.lock"))
        p = subprocess.run(["cargo", "build", "--offline"], cwd=REPLAY, env=env, capture_output=True, text=True, timeout=3000)
        _built["ok"] = (p.returncode == 0, p.stderr[-1500:])
    except Exception as e:
        _built["ok"] = (False, str(e))
    return _built["ok"]


def run_cmd(args, timeout=1800):
    ok, err = build()
    if not ok: return None, "replay crate build failed: " + err
    p = subprocess.run([BIN] + args, capture_output=True, text=True, timeout=timeout)
    try:
        return json.loads(p.stdout.strip().split("\n")[-1]), None
    except Exception:
        return None, f"replay output not JSON (rc={p.returncode}): {p.stdout[-300:]} {p.stderr[-300:]}"


# name -> (kind, args(tier), domain text, property-specific failure message)
SPECS = {
    "fmt": ("Ec", lambda t: ["fmt"], "all 256 bytes x {#XX, XX, \\ooo} and all 484 hex-digit pairs through from_str_radix: discharges the concrete contracts of the R6 formatting stubs and of lexer::axiom_hex2u"),
    "a85hex": ("Eb", lambda t: ["a85hex", "6" if t == "thorough" else "4"], "ASCII85/ASCIIHex: no panic, limit respected, bounded == unbounded"),
    "a85hex-roundtrip": ("Eb", lambda t: ["a85hex-roundtrip", "5" if t == "thorough" else "3"], "ASCII85/ASCIIHex: decode(encode_ref(x)) == x"),
    "enc-tables": ("Ec", lambda t: ["enc-tables"], "TextEncoding::{encode_strict, encode, decode} on every one-char string / one-byte slice vs Annex D"),
    "lru": ("Eb", lambda t: ["lru", "6" if t == "thorough" else "5"], "LruCache vs abstract LRU model: every get/put history (bounded) over 5 keys, capacities 0..=4, plus a drain that exposes the complete recency order"),
    "objcache": ("Eb", lambda t: ["objcache", "5" if t == "thorough" else "4"], "ObjectCache (RwLock-guarded) vs abstract LRU model: every get/put history (bounded) over 3 ids and 2 values, capacities 0..=3, plus a recency drain"),
    "objects": ("Eb", lambda t: ["objects", "3" if t == "thorough" else "2"], "strings and names (values and dictionary keys) -> real writer (legacy + object streams) -> real reader -> same value"),
    "revisions": ("Eb", lambda t: ["revisions", "3" if t == "thorough" else "2"], "revision chains (classic tables / xref streams / object streams / frees) -> PdfReader::get_object in both orders under three presets == newest definition"),
    "filters-roundtrip": ("Eb", lambda t: ["filters-roundtrip", "60000" if t == "thorough" else "20000"], "decode(reference_encode(x)) == x: LZW (weezl) / Flate (flate2) alone and chained, PNG predictors 10-15 and TIFF predictor 2 from reference encoders, decode_stream and decode_stream_with_limit"),
    "notes-history": ("Eb", lambda t: ["notes-history", "4" if t == "thorough" else "3"], "histories of incremental text-note edits: byte-prefix kept, listed notes == model after every step; note contents for every code point U+0020..U+02FF"),
    "writer-configs": ("Eb", lambda t: ["writer-configs", "full" if t == "thorough" else "quick"], "every writer configuration (xref streams x object streams x compression) x encryption strengths x password pairs -> strict parser, unlock with user and owner password, wrong password refused, page text and title recovered"),
    "embedded-font": ("Eb", lambda t: ["embedded-font"], "text drawn with an embedded TrueType font through the text and graphics APIs (alone and together) -> extractor gives the strings back, incl. code-point runs that cross a 256-code row"),
    "hostile-inputs": ("Eb", lambda t: ["hostile-inputs"], "generated hostile files (boundary integers in the numeric slots, deep nesting, cycles, truncation) x 5 presets in child processes capped at 4 GiB / 20 s: no panic, abort, stack overflow or hang"),
    "pagetree": ("Eb", lambda t: ["pagetree", "3" if t == "thorough" else "2"], "page trees over 3 leaves and 3 /Pages nodes (shared, repeated, cyclic kids), attribute placements, chains of 1..40 levels: page count, page at each index, inherited MediaBox/Rotate"),
    "cmap": ("Eb", lambda t: ["cmap", "3" if t == "thorough" else "2"], "hand-written CMaps (1..4-byte codes, bfchar, bfrange offset/array form, ranges crossing a row) and ToUnicodeCMapBuilder round trips through CMap::parse / map / to_unicode"),
    "pageops": ("Eb", lambda t: ["pageops"], "extract / split+merge / reverse / rotate on a 3-page source (multi-stream contents, inherited and own MediaBox/Rotate): output page k == input page perm[k] (content operators, MediaBox, rotation + angle); one page with a non-zero MediaBox origin and a CropBox"),
    "crypto-ref": ("Eb", lambda t: ["crypto-ref", "600" if t == "thorough" else "120"], "standard security handler vs an independent transcription of Algorithms 2, 3, 4/5 (R2/R3, key lengths 5..16) and 2.B (R6) on the md5/sha2/aes primitives, over a generated password list"),
    "image-alpha": ("Eb", lambda t: ["image-alpha"], "RGBA buffers (widths 1..17, heights 1..3, opaque/binary/graded alpha) -> image XObject + SMask decoded with byte-aligned rows == supplied samples"),
    "fontsubset": ("Eb", lambda t: ["fontsubset"], "synthetic TrueType fonts (composites, last-glyph components, short/long loca, odd-length instruction programs) -> subset_font -> flattened outline and advance width of every requested character unchanged (independent glyf reader)"),
    "cffindex": ("Eb", lambda t: ["cffindex"], "CFF INDEX writer build_cff_index: item lists with total data length on and around the offSize boundaries (255/256, 65535/65536) decoded again by an independent INDEX reader"),
    "labels": ("Eb", lambda t: ["labels", "20000" if t == "thorough" else "5000"], "decimal/roman format(n) vs reference formatters; PageLabel/PageLabelTree::to_dict read by an independent object-level reader"),
    "content": ("Eb", lambda t: ["content", "4" if t == "thorough" else "3"], "API -> content stream -> ContentParser::parse_strict: show-text operands and f64 operands with NaN/inf"),
    "png-grid": ("Eb", lambda t: ["png-grid"], "PNG files from a reference encoder (gray 1/2/4/8 bit, RGB8; filters 0-4; widths 1..17) -> Image::from_png_data vs expected 8-bit samples"),
    "opnames": ("Eb", lambda t: ["opnames"], "resource names in drawing operators: draw_image(name) -> content -> parser"),
    "letters": ("Eb", lambda t: ["letters", "20000" if t == "thorough" else "5000"], "PageLabelStyle letters format(n) vs ISO and vs bijective base-26"),
}


def run(prop, names, tier):
    out = []
    for nm in names:
        kind, argf, dom = SPECS[nm]
        t0 = time.time()
        res, err = run_cmd(argf(tier))
        rec = dict(name=nm, kind=kind, domain=dom, label="bounded" if kind == "Eb" else "complete finite domain (enumeration)",
                   discharged_by="enumeration", wall_s=0.0, failures=[])
        if err:
            rec["undecided"] = err
        else:
            rec["evaluated"] = res.get("evaluated")
            rec["bound"] = res.get("bound")
            dis = res.get("disagreements")
            n = dis if isinstance(dis, int) else max(len(dis or []), res.get("disagreement_count", 0) or 0)
            if nm == "letters":
                n = len(res.get("other", []))
                rec["iso_ok"] = res["iso_ok"]; rec["bijective26_not_iso"] = res["bijective26_not_iso"]
                dis = res.get("other", [])
            rec["disagreements"] = n
            if n:
                rec["failures"].append(dict(unit="standin", function=nm, message=f"{kind} stand-in {nm}: {n} disagreement(s)",
                                            line=0, src=None, spans=[], rendered=json.dumps(dis if not isinstance(dis, int) else res.get("examples"))[:2500], engine=kind,
                                            standin_witness=dis if not isinstance(dis, int) else ([x for x in (res.get("examples") or []) if not isinstance(x, dict) or x.get("regular", True)] or None)))
            if nm == "png-grid" and res.get("subbyte_wrong"):
                rec["subbyte_total"] = res.get("subbyte_total"); rec["subbyte_wrong"] = res.get("subbyte_wrong")
                rec["failures"].append(dict(unit="standin", function="png-grid-subbyte", message=f"Eb stand-in: {res['subbyte_wrong']} of {res['subbyte_total']} gray PNGs with bit depth < 8 do not decode to the expected samples",
                                            line=0, src=None, spans=[], rendered="", engine="Eb", standin_witness=[dict(depth=1, width=16, height=1)]))
            if nm == "filters-roundtrip" and res.get("tiff_wrong"):
                rec["tiff_total"] = res.get("tiff_total"); rec["tiff_wrong"] = res.get("tiff_wrong")
                rec["failures"].append(dict(unit="standin", function="filters-roundtrip-tiff2", message=f"Eb stand-in: {res['tiff_wrong']} of {res['tiff_total']} TIFF-predictor (Predictor 2) streams from a reference encoder do not decode to the original bytes",
                                            line=0, src=None, spans=[], rendered=json.dumps(res.get("tiff_examples"))[:1500], engine="Eb", standin_witness=res.get("tiff_examples")))
            if nm == "pageops" and res.get("origin_wrong"):
                rec["origin_wrong"] = res.get("origin_wrong")
                rec["failures"].append(dict(unit="standin", function="pageops-origin", message="Eb stand-in: a page whose MediaBox has a non-zero origin (and a CropBox) does not keep its boxes through extract_pages_to_file",
                                            line=0, src=None, spans=[], rendered=json.dumps(res.get("origin_examples"))[:1500], engine="Eb", standin_witness=res.get("origin_examples")))
            if nm == "opnames" and res.get("irregular_wrong"):
                rec["irregular_wrong"] = res.get("irregular_wrong")
                rec["failures"].append(dict(unit="standin", function="opnames-irregular", message=f"Eb stand-in: {res['irregular_wrong']} resource names with white space / delimiters / '#' are not read back from the content stream",
                                            line=0, src=None, spans=[], rendered=json.dumps(res.get("examples"))[:1500], engine="Eb", standin_witness=res.get("examples")))
            if nm == "enc-tables":
                rec["silent_replacement_count"] = res.get("silent_replacement_count")
                rec["pdfdoc_disagreement_count"] = res.get("pdfdoc_disagreement_count")
                if res.get("silent_replacement_count"):
                    rec["failures"].append(dict(unit="standin", function="enc-tables-lossy", message=f"Ec stand-in: TextEncoding::encode silently replaces {res['silent_replacement_count']} unmappable characters",
                                                line=0, src=None, spans=[], rendered=json.dumps(res.get("silent_replacement_examples"))[:1500], engine="Ec",
                                                standin_witness=res.get("silent_replacement_examples")))
                if res.get("pdfdoc_disagreement_count"):
                    rec["failures"].append(dict(unit="standin", function="enc-tables-pdfdoc", message=f"Ec stand-in: PDFDocEncoding encode/decode disagree with Annex D in {res['pdfdoc_disagreement_count']} cases",
                                                line=0, src=None, spans=[], rendered=json.dumps(res.get("pdfdoc_examples"))[:1500], engine="Ec",
                                                standin_witness=res.get("pdfdoc_examples")))
        rec["wall_s"] = round(time.time() - t0, 2)
        out.append(rec)
    return out
