"""Witness search for failed obligations: native evaluation of the real function on small inputs through the replay
crate. The search never decides anything; it only attaches a concrete failing input to a violation when it finds one."""
import json
import standins

# (unit, function prefix) -> replay command that compares the real function with its executable spec twin
SEARCH = {
    ("pagelabels", "to_letters"): ["letters", "5000"],
    ("runlength", ""): None,
    ("lru", ""): ["lru", "6"],
    ("asciihex", ""): ["a85hex", "4"],
    ("ascii85", ""): ["a85hex", "4"],
    ("bounded", "ascii85_group_value"): ["a85hex", "4"],
}


def search(prop, f):
    if f.get("standin_witness"):
        return dict(found=True, kind="enumeration", cases=f["standin_witness"][:5])
    for (unit, fn), cmd in SEARCH.items():
        if f.get("unit") == unit and f.get("function", "").startswith(fn) and cmd:
            res, err = standins.run_cmd(cmd)
            if err or res is None: return None
            dis = res.get("other") if cmd[0] == "letters" else res.get("disagreements")
            if dis and not isinstance(dis, int):
                return dict(found=True, kind="enumeration", replay_cmd=cmd, cases=dis[:5])
            return dict(found=False, searched=cmd, evaluated=res.get("evaluated"))
    return None


def replay(prop, w):
    """re-run the recorded search; returns True when the real code now agrees with the spec"""
    cmd = w.get("replay_cmd")
    if not cmd:
        print(json.dumps(w)[:2000]); return False
    res, err = standins.run_cmd(cmd)
    print(json.dumps(res)[:2000] if res else err)
    if res is None: return False
    dis = res.get("other") if cmd[0] == "letters" else res.get("disagreements")
    return not dis
