"""Witness search for failed Verus obligations: native evaluation of the real function on small inputs (replay crate)."""


def search(prop, failure):
    return None


def replay(prop, w):
    return True
