"""Engine K: cargo kani on the real crate in place. Harnesses live in /verif/hooks/*.rs (hook modules compiled only
under cfg(kani)). Only complete harnesses are registered here: loop-free code over full scalar domains or fixed-size
arrays with the array length as the only unwinding bound."""
import os
import re
import subprocess
import time

CRATE = "/repo/oxidize-pdf-core"
TARGET = "/verif/build/kani-target"


def _env():
    e = dict(os.environ)
    e["CARGO_NET_OFFLINE"] = "true"
    e["CARGO_TARGET_DIR"] = TARGET
    e["PATH"] = e.get("PATH", "") + ":/root/.cargo/bin"
    return e


def _run(harnesses, extra=(), timeout=3000):
    cmd = ["cargo", "kani", "-Z", "function-contracts", "-Z", "stubbing", "--output-format", "terse"]
    for h in harnesses: cmd += ["--harness", h]
    cmd += list(extra)
    p = subprocess.run(cmd, cwd=CRATE, env=_env(), capture_output=True, text=True, timeout=timeout)
    return " ".join(cmd), p.stdout + "\n" + p.stderr, p.returncode


def parse(out):
    """harness short name -> dict(status, time, failed[], covers)"""
    res = {}
    parts = re.split(r"Checking harness ", out)
    for part in parts[1:]:
        name = part.split("...", 1)[0].strip()
        short = name.split("::")[-1]
        st = "UNKNOWN"
        m = re.search(r"VERIFICATION:- (SUCCESSFUL|FAILED)", part)
        if m: st = m.group(1)
        tm = re.search(r"Verification Time: ([0-9.]+)s", part)
        failed = re.findall(r"Failed Checks: (.*)", part)
        cov = re.search(r"\*\* (\d+) of (\d+) cover properties satisfied", part)
        unsupported = "unsupported" in part.lower() and st == "FAILED" and any("not currently supported" in f or "unsupported" in f.lower() for f in failed)
        unwind = any("unwinding assertion" in f for f in failed)
        res[short] = dict(full=name, status=st, time=float(tm.group(1)) if tm else None, failed=failed,
                          covers=(int(cov.group(1)), int(cov.group(2))) if cov else None,
                          unsupported=unsupported, unwind=unwind, text=part[-4000:])
    return res


def playback(harness):
    """re-run one failing harness with concrete playback; returns the generated unit test text (inputs as byte vectors)"""
    try:
        cmd, out, rc = _run([harness], extra=["-Z", "concrete-playback", "--concrete-playback=print"], timeout=900)
    except subprocess.TimeoutExpired:
        return None
    m = re.search(r"```\s*\n(.*?)```", out, re.S)
    if m: return m.group(1)
    m = re.search(r"(#\[test\]\s*fn kani_concrete_playback.*?\n\})", out, re.S)
    return m.group(1) if m else None


def run(prop, harnesses, tier):
    t0 = time.time()
    res = dict(unit="kani", engine="kani", obligations=[], failures=[], undecided=None, functions=[], assumptions=[],
               rewrites=[], wall_s=0.0, smt_ms=0)
    names = [h["name"] if isinstance(h, dict) else h for h in harnesses]
    meta = {(h["name"] if isinstance(h, dict) else h): (h if isinstance(h, dict) else {}) for h in harnesses}
    try:
        cmd, out, rc = _run(names)
    except subprocess.TimeoutExpired:
        res["undecided"] = "cargo kani timeout"; return res
    res["cmd"] = "cd /repo/oxidize-pdf-core && CARGO_TARGET_DIR=/verif/build/kani-target " + cmd
    parsed = parse(out)
    if "error: could not compile" in out or "error[E" in out:
        res["undecided"] = "kani build failed: " + "\n".join(l for l in out.split("\n") if l.startswith("error"))[:1500]
        res["wall_s"] = time.time() - t0
        return res
    for n in names:
        r = parsed.get(n)
        if r is None:
            res["undecided"] = f"harness {n} not found in kani output"; continue
        ok = r["status"] == "SUCCESSFUL"
        if ok and r["covers"] and r["covers"][0] < r["covers"][1]:
            res["undecided"] = f"vacuity: harness {n} has unsatisfied cover ({r['covers'][0]}/{r['covers'][1]})"
        res["obligations"].append(dict(id=f"kani::{n}", mode="harness", ok=ok, smt_us=int((r["time"] or 0) * 1e6), engine="kani/cbmc"))
        tgt = meta[n].get("target")
        if tgt: res["functions"].append(dict(file=tgt[0], line=0, path=tgt[1], kind="fn", name=n))
        if not ok:
            if r["unsupported"] or r["unwind"] or r["status"] == "UNKNOWN":
                res["undecided"] = f"harness {n}: unsupported construct / unwinding / no verdict"
                continue
            pb = None
            if tier != "noplayback":
                pb = playback(n)
            res["failures"].append(dict(unit="kani", function=n, message="kani check failed: " + "; ".join(r["failed"])[:500],
                                        line=0, src=tgt, spans=[], rendered=r["text"][-2500:], engine="kani",
                                        kani_playback=pb))
    res["smt_ms"] = int(sum((parsed.get(n) or {}).get("time") or 0 for n in names) * 1000)
    res["wall_s"] = time.time() - t0
    res["assumptions"] = ["kani: harnesses use kani::any() over the full domain; no kani::assume except where listed in the hook file"]
    return res
