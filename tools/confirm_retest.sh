#!/bin/sh
# development helper: confirm_retest.sh <PROP> <k> <cargo-nextest target args...>  -- re-run load-sensitive tests that failed during a
# confirmation, alone, in the seed's scratch worktree with the patch applied; appends to confirm.log.
#   e.g. confirm_retest.sh C13 1 -p oxidize-pdf --test forms_performance_scalability_test
#        confirm_retest.sh C13 1 -p oxidize-pdf --lib -E 'test(test_parser_optimization_repeated_operations)'
P=$1; K=$2; shift 2; WT=/tmp/seed/$P; OUT=/tmp/seed/${P}_out/$K
export CARGO_TARGET_DIR=$WT/target CARGO_NET_OFFLINE=true
cd $WT || exit 2
git checkout -q -- . ; git apply $OUT/patch.diff || exit 1
echo "-- re-run alone (patch applied) of the load-sensitive tests: $*" >> $OUT/confirm.log
cargo nextest run --offline --no-fail-fast "$@" 2>&1 | grep -E "^\s+(PASS|FAIL)|Summary" | sed -E 's/^\s+//' | grep -E "FAIL|Summary|performance|optimization" | tail -12 >> $OUT/confirm.log
git checkout -q -- .
tail -4 $OUT/confirm.log
