#!/bin/sh
# development helper: muttest.sh <unit> <relative file> <sed expr>   -- runs a unit against a mutated scratch copy of src
set -e
rm -rf /tmp/mutsrc && cp -r /repo/oxidize-pdf-core/src /tmp/mutsrc
sed -i "$3" /tmp/mutsrc/$2
if diff -q /tmp/mutsrc/$2 /repo/oxidize-pdf-core/src/$2 >/dev/null; then echo "MUTATION DID NOT APPLY"; rm -rf /tmp/mutsrc; exit 3; fi
VERIF_REPO_SRC=/tmp/mutsrc python3 /verif/tools/check.py --unit $1 2>&1 | tail -${4:-30}
rm -rf /tmp/mutsrc
