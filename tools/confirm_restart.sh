#!/bin/sh
# development helper: stop any running confirmation queue and start a new one for the given properties
for pid in $(ps -eo pid,args | grep -E "confirm_queue.sh|confirm_seed.sh|nextest run --workspace" | grep -v grep | grep -v confirm_restart | awk '{print $1}'); do kill $pid 2>/dev/null; done
sleep 2
rmdir /tmp/seed/.confirm_lock 2>/dev/null
for p in "$@"; do
  [ -d /tmp/seed/$p ] && { git -C /tmp/seed/$p checkout -q -- . ; rm -f /tmp/seed/$p/oxidize-pdf-core/tests/seed_demo.rs; }
done
nohup setsid /verif/tools/confirm_queue.sh "$@" > /tmp/seed/confirm_q.out 2>&1 < /dev/null &
sleep 2
ps -eo pid,args | grep -E "confirm_(queue|seed).sh" | grep -v grep | head -4
