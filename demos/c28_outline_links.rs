// demo for the C28 sibling-link defect: roots [A [A1], B]. Correct: A /Next -> B, B /Prev -> A, root /Last -> B.
// run: cp to /repo/oxidize-pdf-core/examples/ and `cargo run --offline --example c28_outline_links`
use oxidize_pdf::structure::{OutlineItem, OutlineTree};
use oxidize_pdf::{Document, Page};
fn main() {
    let mut doc = Document::new();
    doc.add_page(Page::a4());
    let mut a = OutlineItem::new("A");
    a.add_child(OutlineItem::new("A1"));
    let mut tree = OutlineTree::new();
    tree.add_item(a);
    tree.add_item(OutlineItem::new("B"));
    doc.set_outline(tree);
    let bytes = doc.to_bytes().unwrap();
    let text = String::from_utf8_lossy(&bytes);
    let mut id_of = std::collections::HashMap::new();
    let mut dicts = vec![];
    for chunk in text.split("endobj") {
        if let Some(p) = chunk.find("/Title (") {
            let title = &chunk[p + 8..p + 8 + chunk[p + 8..].find(')').unwrap()];
            let head = chunk.trim_start().lines().find(|l| l.ends_with(" obj")).unwrap_or("");
            let id = head.split(' ').next().unwrap_or("").to_string();
            id_of.insert(title.to_string(), id);
            dicts.push((title.to_string(), chunk.to_string()));
        }
    }
    let field = |chunk: &str, key: &str| -> Option<String> {
        chunk.find(key).map(|p| chunk[p + key.len()..].trim_start().split(' ').next().unwrap().to_string())
    };
    let mut ok = true;
    for (t, c) in &dicts {
        println!("{t}: id={} next={:?} prev={:?}", id_of[t], field(c, "/Next"), field(c, "/Prev"));
    }
    let a = &dicts.iter().find(|d| d.0 == "A").unwrap().1;
    let b = &dicts.iter().find(|d| d.0 == "B").unwrap().1;
    if field(a, "/Next").as_deref() != Some(id_of["B"].as_str()) { println!("WRONG: A /Next should be B"); ok = false; }
    if field(b, "/Prev").as_deref() != Some(id_of["A"].as_str()) { println!("WRONG: B /Prev should be A"); ok = false; }
    println!("{}", if ok { "links OK" } else { "links BROKEN" });
    std::process::exit(if ok { 0 } else { 1 });
}
