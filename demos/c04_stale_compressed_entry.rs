use oxidize_pdf::parser::{PdfReader, ParseOptions};
use oxidize_pdf::writer::WriterConfig;
use oxidize_pdf::{Document, Page};
use std::io::Cursor;

fn main() {
    let mut doc = Document::new();
    doc.add_page(Page::a4());
    doc.set_title("OLD");
    let base = doc.to_bytes_with_config(WriterConfig::modern()).unwrap();
    // find Info object number and startxref
    let mut r = PdfReader::new(Cursor::new(base.clone())).unwrap();
    let info_ref = r.trailer().info();
    println!("base info ref = {:?}", info_ref);
    let md = r.metadata().unwrap();
    println!("base title = {:?}", md.title);
    let txt = String::from_utf8_lossy(&base);
    let sx = txt.rfind("startxref").unwrap();
    let prev: u64 = txt[sx + 9..].trim().lines().next().unwrap().trim().parse().unwrap();
    let (num, gen) = info_ref.expect("info ref");
    let size = r.trailer().size().unwrap();
    let root = r.trailer().root().unwrap();
    // append classic incremental update redefining the info object
    let mut out = base.clone();
    if !out.ends_with(b"\n") { out.push(b'\n'); }
    let off = out.len();
    out.extend_from_slice(format!("{} {} obj\n<< /Title (NEW) >>\nendobj\n", num, gen).as_bytes());
    let xref_pos = out.len();
    out.extend_from_slice(format!("xref\n{} 1\n{:010} {:05} n \n", num, off, gen).as_bytes());
    out.extend_from_slice(format!("trailer\n<< /Size {} /Root {} {} R /Info {} {} R /Prev {} >>\nstartxref\n{}\n%%EOF\n", size, root.0, root.1, num, gen, prev, xref_pos).as_bytes());
    for (name, opts) in [("default", ParseOptions::default()), ("strict", ParseOptions::strict())] {
        match PdfReader::new_with_options(Cursor::new(out.clone()), opts) {
            Ok(mut r2) => {
                let is_comp = r2.get_object(num, gen).map(|o| format!("{:?}", o)).unwrap_or_else(|e| format!("ERR {e}"));
                println!("[{name}] updated object {num} = {}", &is_comp[..is_comp.len().min(120)]);
                println!("[{name}] updated title = {:?}", r2.metadata().map(|m| m.title));
            }
            Err(e) => println!("[{name}] open error {e}"),
        }
    }
}
