// Roman numerals, standard subtractive notation (greedy over 1000 m, 900 cm, 500 d, ... 1 i), lower case.
pub open spec fn rv(k: int) -> int {
    if k == 0 { 1000 } else if k == 1 { 900 } else if k == 2 { 500 } else if k == 3 { 400 } else if k == 4 { 100 }
    else if k == 5 { 90 } else if k == 6 { 50 } else if k == 7 { 40 } else if k == 8 { 10 } else if k == 9 { 9 }
    else if k == 10 { 5 } else if k == 11 { 4 } else { 1 }
}
pub open spec fn rs(k: int) -> Seq<char> {
    if k == 0 { seq!['m'] } else if k == 1 { seq!['c', 'm'] } else if k == 2 { seq!['d'] } else if k == 3 { seq!['c', 'd'] }
    else if k == 4 { seq!['c'] } else if k == 5 { seq!['x', 'c'] } else if k == 6 { seq!['l'] } else if k == 7 { seq!['x', 'l'] }
    else if k == 8 { seq!['x'] } else if k == 9 { seq!['i', 'x'] } else if k == 10 { seq!['v'] } else if k == 11 { seq!['i', 'v'] }
    else { seq!['i'] }
}
pub open spec fn iso_roman(n: nat, k: int) -> Seq<char> decreases 13 - k, n
{
    if k < 0 || k >= 13 { Seq::empty() }
    else if n >= rv(k) { rs(k) + iso_roman((n - rv(k)) as nat, k) }
    else { iso_roman(n, k + 1) }
}
pub open spec fn roman_table_ok(values: Seq<(u32, &'static str)>) -> bool {
    values.len() == 13 && forall|j: int| 0 <= j < 13 ==> (#[trigger] values[j]).0 == rv(j) && values[j].1@ == rs(j)
}

pub proof fn lemma_roman_zero(k: int)
    requires 0 <= k <= 13,
    ensures iso_roman(0, k) == Seq::<char>::empty(),
    decreases 13 - k
{ if k < 13 { lemma_roman_zero(k + 1); } }
