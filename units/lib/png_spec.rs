// PNG specification (ISO/IEC 15948) 9.2-9.4: reconstruction of a filtered scanline.
// `prior` is the previous reconstructed scanline (None on the first row = all zeros); bpp >= 1.
pub open spec fn prior_at(p: Option<Seq<u8>>, i: int) -> u8 {
    match p { Some(s) => if 0 <= i < s.len() { s[i] } else { 0u8 }, None => 0u8 }
}
pub open spec fn paeth_spec(a: u8, b: u8, c: u8) -> u8 {
    let p = a as int + b as int - c as int;
    let pa = if p - a as int >= 0 { p - a as int } else { a as int - p };
    let pb = if p - b as int >= 0 { p - b as int } else { b as int - p };
    let pc = if p - c as int >= 0 { p - c as int } else { c as int - p };
    if pa <= pb && pa <= pc { a } else if pb <= pc { b } else { c }
}
pub open spec fn add8(a: u8, b: u8) -> u8 { ((a as int + b as int) % 256) as u8 }
pub open spec fn sub8(a: u8, b: u8) -> u8 { ((a as int - b as int + 256) % 256) as u8 }
// predictor value for filter type ft (1 Sub, 2 Up, 3 Average, 4 Paeth) from left (a), above (b), upper-left (c)
pub open spec fn png_pred(ft: int, a: u8, b: u8, c: u8) -> u8 {
    if ft == 1 { a } else if ft == 2 { b } else if ft == 3 { ((a as int + b as int) / 2) as u8 } else if ft == 4 { paeth_spec(a, b, c) } else { 0u8 }
}
// first n reconstructed bytes of the scanline whose filtered bytes are f
pub open spec fn recon(ft: int, f: Seq<u8>, p: Option<Seq<u8>>, bpp: int, n: int) -> Seq<u8> decreases n
{
    if n <= 0 { Seq::empty() } else {
        let r = recon(ft, f, p, bpp, n - 1);
        let i = n - 1;
        let a = if i >= bpp { r[i - bpp] } else { 0u8 };
        let b = prior_at(p, i);
        let c = if i >= bpp { prior_at(p, i - bpp) } else { 0u8 };
        r.push(add8(f[i], png_pred(ft, a, b, c)))
    }
}
pub proof fn lemma_recon_len(ft: int, f: Seq<u8>, p: Option<Seq<u8>>, bpp: int, n: int)
    requires n >= 0,
    ensures recon(ft, f, p, bpp, n).len() == n,
    decreases n
{ if n > 0 { lemma_recon_len(ft, f, p, bpp, n - 1); } }
// the PNG encoder's filter: Filt(x) = Orig(x) - pred(Orig(a), Orig(b), Orig(c))
pub open spec fn filt(ft: int, x: Seq<u8>, p: Option<Seq<u8>>, bpp: int) -> Seq<u8> {
    Seq::new(x.len(), |i: int| sub8(x[i], png_pred(ft, if i >= bpp { x[i - bpp] } else { 0u8 }, prior_at(p, i), if i >= bpp { prior_at(p, i - bpp) } else { 0u8 })))
}
// reconstruction inverts the reference encoder's filter, for every filter type, row, prior row and bpp >= 1
pub proof fn lemma_recon_filt(ft: int, x: Seq<u8>, p: Option<Seq<u8>>, bpp: int, n: int)
    requires 0 <= n <= x.len(), bpp >= 1,
    ensures recon(ft, filt(ft, x, p, bpp), p, bpp, n) == x.subrange(0, n),
    decreases n
{
    if n == 0 {
        assert(x.subrange(0, 0) =~= Seq::<u8>::empty());
    } else {
        lemma_recon_filt(ft, x, p, bpp, n - 1);
        let i = n - 1;
        let r = recon(ft, filt(ft, x, p, bpp), p, bpp, n - 1);
        assert(r == x.subrange(0, n - 1));
        let a = if i >= bpp { x[i - bpp] } else { 0u8 };
        if i >= bpp { assert(r[i - bpp] == x[i - bpp]); }
        let pr = png_pred(ft, a, prior_at(p, i), if i >= bpp { prior_at(p, i - bpp) } else { 0u8 });
        assert(add8(sub8(x[i], pr), pr) == x[i]);
        assert(x.subrange(0, n) =~= x.subrange(0, n - 1).push(x[i]));
    }
}
