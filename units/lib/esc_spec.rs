// ---------- writer side: ISO 32000-1 7.3.4.2 escaping that survives both the library reader and an ISO reader ----------
// backslash and parentheses are backslash-prefixed; a raw CARRIAGE RETURN is written as `\r` (an unescaped end-of-line
// marker inside a literal string is read as LF by a conforming reader); every other byte is copied.
pub open spec fn esc1(b: u8) -> Seq<u8> {
    if b == 0x5Cu8 { seq![0x5Cu8, 0x5Cu8] }
    else if b == 0x28u8 { seq![0x5Cu8, 0x28u8] }
    else if b == 0x29u8 { seq![0x5Cu8, 0x29u8] }
    else if b == 0x0Du8 { seq![0x5Cu8, 0x72u8] }
    else { seq![b] }
}
pub open spec fn esc(s: Seq<u8>) -> Seq<u8> decreases s.len() {
    if s.len() == 0 { Seq::empty() } else { esc1(s[0]) + esc(s.subrange(1, s.len() as int)) }
}
pub proof fn lemma_esc_push(s: Seq<u8>, b: u8)
    ensures esc(s.push(b)) == esc(s) + esc1(b),
    decreases s.len()
{
    if s.len() == 0 {
        let sp = s.push(b);
        assert(sp.len() == 1 && sp[0] == b);
        assert(sp.subrange(1, sp.len() as int) =~= Seq::<u8>::empty());
        assert(esc(Seq::<u8>::empty()) =~= Seq::<u8>::empty());
        assert(esc(sp) == esc1(sp[0]) + esc(sp.subrange(1, sp.len() as int)));
        assert(esc(s.push(b)) =~= esc1(b) + Seq::<u8>::empty());
        assert(esc(s) + esc1(b) =~= esc1(b));
        assert(esc1(b) + Seq::<u8>::empty() =~= esc1(b));
    } else {
        let t = s.subrange(1, s.len() as int);
        assert(s.push(b).subrange(1, s.len() as int + 1) =~= t.push(b));
        lemma_esc_push(t, b);
        assert(esc1(s[0]) + (esc(t) + esc1(b)) =~= (esc1(s[0]) + esc(t)) + esc1(b));
    }
}

// ---------- the inverse lemma (library reader) ----------
pub proof fn lemma_roundtrip(s: Seq<u8>, pre: Seq<u8>, rest: Seq<u8>, acc: Seq<u8>)
    ensures
        lit_dec(pre + esc(s) + seq![0x29u8] + rest, pre.len() as int, 1, acc)
            == (acc + s, (pre.len() + esc(s).len() + 1) as int),
    decreases s.len()
{
    let t = pre + esc(s) + seq![0x29u8] + rest;
    let i = pre.len() as int;
    if s.len() == 0 {
        assert(esc(s) =~= Seq::<u8>::empty());
        assert(t[i] == 0x29u8);
        assert(acc + s =~= acc);
    } else {
        let b = s[0];
        let tail = s.subrange(1, s.len() as int);
        let pre2 = pre + esc1(b);
        assert(esc(s) == esc1(b) + esc(tail));
        assert(t =~= pre2 + esc(tail) + seq![0x29u8] + rest);
        lemma_roundtrip(tail, pre2, rest, acc.push(b));
        assert(acc.push(b) + tail =~= acc + s);
        assert(esc(s).len() == esc1(b).len() + esc(tail).len());
        if b == 0x5Cu8 || b == 0x28u8 || b == 0x29u8 {
            assert(t[i] == 0x5Cu8);
            assert(t[i + 1] == b);
            assert(!is_oct(b));
            assert(simple_escape(b) == b);
        } else if b == 0x0Du8 {
            assert(t[i] == 0x5Cu8);
            assert(t[i + 1] == 0x72u8);
            assert(!is_oct(0x72u8));
            assert(simple_escape(0x72u8) == 0x0Du8);
        } else {
            assert(t[i] == b);
        }
    }
}
