// trusted std spec (transcription of the documentation): `<[T]>::to_vec` copies the slice
pub assume_specification<T: Clone> [<[T]>::to_vec] (s: &[T]) -> (r: Vec<T>)
    ensures r@ == s@;
