// proved lemma library: Seq::filter / mask_select (nothing here is assumed except the retain spec)
pub open spec fn mask_select<A>(s: Seq<A>, m: Seq<bool>) -> Seq<A>
    decreases s.len()
{
    if s.len() == 0 || m.len() != s.len() { Seq::empty() }
    else if m.last() { mask_select(s.drop_last(), m.drop_last()).push(s.last()) }
    else { mask_select(s.drop_last(), m.drop_last()) }
}

pub assume_specification<T, A, F> [std::collections::VecDeque::<T, A>::retain] (v: &mut std::collections::VecDeque<T, A>, f: F)
    where
    A: std::alloc::Allocator,
    F: std::ops::FnMut(&T,) -> bool,
    requires forall|x: &T| call_requires(f, (x,)),
    ensures
        exists|m: Seq<bool>| #![trigger mask_select(old(v)@, m)] m.len() == old(v)@.len()
            && (forall|i: int| 0 <= i < m.len() ==> call_ensures(f, (&old(v)@[i],), #[trigger] m[i]))
            && final(v)@ == mask_select(old(v)@, m),
;

proof fn lemma_mask_filter<A>(s: Seq<A>, m: Seq<bool>, p: spec_fn(A) -> bool)
    requires m.len() == s.len(), forall|i: int| 0 <= i < s.len() ==> m[i] == p(s[i]),
    ensures mask_select(s, m) == s.filter(p),
    decreases s.len()
{
    reveal(Seq::filter);
    if s.len() > 0 {
        lemma_mask_filter(s.drop_last(), m.drop_last(), p);
    }
}

// ---------- proved lemma library: Seq::filter ----------
proof fn lemma_filter_ext<A>(s: Seq<A>, p: spec_fn(A) -> bool, q: spec_fn(A) -> bool)
    requires forall|x: A| s.contains(x) ==> (p(x) <==> q(x)),
    ensures s.filter(p) == s.filter(q),
    decreases s.len()
{
    reveal(Seq::filter);
    if s.len() > 0 {
        let t = s.drop_last();
        assert forall|x: A| t.contains(x) implies (p(x) <==> q(x)) by {
            let i = choose|i: int| 0 <= i < t.len() && t[i] == x;
            assert(0 <= i < s.len() && s[i] == x);
            assert(s.contains(x));
        }
        lemma_filter_ext(t, p, q);
        assert(s.contains(s.last())) by { assert(s[s.len() - 1] == s.last()); }
    }
}

proof fn lemma_filter_contains<A>(s: Seq<A>, p: spec_fn(A) -> bool, x: A)
    ensures s.filter(p).contains(x) <==> (s.contains(x) && p(x)),
    decreases s.len()
{
    reveal(Seq::filter);
    if s.len() == 0 {
    } else {
        let t = s.drop_last();
        lemma_filter_contains(t, p, x);
        let f = s.filter(p);
        if p(s.last()) {
            assert(f == t.filter(p).push(s.last()));
            if f.contains(x) {
                let i = choose|i: int| 0 <= i < f.len() && f[i] == x;
                if i < f.len() - 1 { assert(t.filter(p)[i] == x); assert(t.filter(p).contains(x)); 
                    let j = choose|j: int| 0 <= j < t.len() && t[j] == x; assert(s[j] == x); }
                else { assert(x == s.last()); assert(s[s.len()-1] == x); }
            }
            if s.contains(x) && p(x) {
                let j = choose|j: int| 0 <= j < s.len() && s[j] == x;
                if j < s.len() - 1 { assert(t[j] == x); assert(t.contains(x)); 
                    let i = choose|i: int| 0 <= i < t.filter(p).len() && t.filter(p)[i] == x; assert(f[i] == x); }
                else { assert(f[f.len()-1] == x); }
            }
        } else {
            assert(f == t.filter(p));
            if f.contains(x) { let j = choose|j: int| 0 <= j < t.len() && t[j] == x; assert(s[j] == x); }
            if s.contains(x) && p(x) {
                let j = choose|j: int| 0 <= j < s.len() && s[j] == x;
                assert(j < s.len() - 1);
                assert(t[j] == x);
            }
        }
    }
}

proof fn lemma_filter_no_dup<A>(s: Seq<A>, p: spec_fn(A) -> bool)
    requires s.no_duplicates(),
    ensures s.filter(p).no_duplicates(),
    decreases s.len()
{
    reveal(Seq::filter);
    if s.len() > 0 {
        let t = s.drop_last();
        lemma_filter_no_dup(t, p);
        if p(s.last()) {
            lemma_filter_contains(t, p, s.last());
            if t.contains(s.last()) {
                let j = choose|j: int| 0 <= j < t.len() && t[j] == s.last();
                assert(s[j] == s[s.len() - 1]);
            }
            let f = t.filter(p);
            assert forall|i: int, j: int| 0 <= i < j < f.push(s.last()).len() implies f.push(s.last())[i] != f.push(s.last())[j] by {
                if j == f.len() { assert(f.contains(f[i])); }
            }
        }
    }
}



pub broadcast proof fn b_filter_ext<A>(s: Seq<A>, p: spec_fn(A) -> bool, q: spec_fn(A) -> bool)
    requires forall|x: A| #[trigger] p(x) <==> q(x),
    ensures #[trigger] s.filter(p) == #[trigger] s.filter(q),
{
    lemma_filter_ext(s, p, q);
}
pub broadcast proof fn b_filter_contains<A>(s: Seq<A>, p: spec_fn(A) -> bool, x: A)
    ensures #[trigger] s.filter(p).contains(x) <==> (s.contains(x) && p(x)),
{
    lemma_filter_contains(s, p, x);
}
pub broadcast proof fn b_filter_no_dup<A>(s: Seq<A>, p: spec_fn(A) -> bool)
    requires s.no_duplicates(),
    ensures #[trigger] s.filter(p).no_duplicates(),
{
    lemma_filter_no_dup(s, p);
}

pub broadcast proof fn b_mask_filter<A>(s: Seq<A>, m: Seq<bool>, p: spec_fn(A) -> bool)
    requires m.len() == s.len(), forall|i: int| 0 <= i < s.len() ==> #[trigger] m[i] == p(s[i]),
    ensures #[trigger] mask_select(s, m) == #[trigger] s.filter(p),
{
    lemma_mask_filter(s, m, p);
}
pub broadcast proof fn b_cons_contains<A>(a: A, s: Seq<A>, x: A)
    ensures #[trigger] (seq![a] + s).contains(x) <==> (x == a || s.contains(x)),
{
    let t = seq![a] + s;
    if t.contains(x) { let i = choose|i: int| 0 <= i < t.len() && t[i] == x; if i > 0 { assert(s[i-1] == x); } }
    if x == a { assert(t[0] == x); }
    if s.contains(x) { let i = choose|i: int| 0 <= i < s.len() && s[i] == x; assert(t[i+1] == x); }
}
proof fn lemma_filter_remove_one<A>(s: Seq<A>, k: A)
    requires s.no_duplicates(),
    ensures s.filter(|x: A| x != k).len() == (if s.contains(k) { s.len() - 1 } else { s.len() as int }),
    decreases s.len()
{
    reveal(Seq::filter);
    let p = |x: A| x != k;
    if s.len() > 0 {
        let t = s.drop_last();
        lemma_filter_remove_one(t, k);
        if s.last() == k {
            if t.contains(k) { let j = choose|j: int| 0 <= j < t.len() && t[j] == k; assert(s[j] == s[s.len() - 1]); }
            assert(s.contains(k)) by { assert(s[s.len() - 1] == k); }
        } else {
            if s.contains(k) { let j = choose|j: int| 0 <= j < s.len() && s[j] == k; assert(t[j] == k); }
            if t.contains(k) { let j = choose|j: int| 0 <= j < t.len() && t[j] == k; assert(s[j] == k); }
        }
    }
}
pub broadcast proof fn b_filter_remove_one<A>(s: Seq<A>, p: spec_fn(A) -> bool, k: A)
    requires s.no_duplicates(), forall|x: A| #[trigger] p(x) <==> x != k,
    ensures #![trigger s.filter(p), s.contains(k)] s.filter(p).len() == (if s.contains(k) { s.len() - 1 } else { s.len() as int }),
{ lemma_filter_remove_one(s, k); lemma_filter_ext(s, p, |x: A| x != k); }
proof fn lemma_cons_no_dup<A>(a: A, s: Seq<A>)
    requires s.no_duplicates(), !s.contains(a),
    ensures (seq![a] + s).no_duplicates(),
{
    let t = seq![a] + s;
    assert forall|i: int, j: int| 0 <= i < j < t.len() implies t[i] != t[j] by {
        if i == 0 { assert(s[j - 1] == t[j]); assert(s.contains(t[j])); }
        else { assert(t[i] == s[i - 1] && t[j] == s[j - 1]); }
    }
}
pub broadcast group filter_lemmas { b_filter_remove_one, b_filter_ext, b_filter_contains, b_filter_no_dup, b_mask_filter, b_cons_contains }

