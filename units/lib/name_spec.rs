// ISO 32000-1 7.3.5 name objects. A name token is '/' followed by regular characters; any byte may be written as #XX.
pub open spec fn is_ws(b: u8) -> bool { b == 0x00 || b == 0x09 || b == 0x0A || b == 0x0C || b == 0x0D || b == 0x20 }
pub open spec fn is_delim(b: u8) -> bool {
    b == 0x28 || b == 0x29 || b == 0x3C || b == 0x3E || b == 0x5B || b == 0x5D || b == 0x7B || b == 0x7D || b == 0x2F || b == 0x25
}
// bytes that may appear literally inside a name token: printable, regular, not '#'
pub open spec fn name_regular(b: u8) -> bool { 0x21 <= b <= 0x7E && !is_delim(b) && b != 0x23 }
pub open spec fn hex_digit(n: int) -> u8 { if n < 10 { (0x30 + n) as u8 } else { (0x41 + n - 10) as u8 } }
pub open spec fn hex_val(ch: u8) -> int {
    if 0x30 <= ch <= 0x39 { ch - 0x30 } else if 0x41 <= ch <= 0x46 { ch - 0x41 + 10 } else if 0x61 <= ch <= 0x66 { ch - 0x61 + 10 } else { -1 }
}
// ISO reading of a name token body t (after the '/'), from index i: stops at white space or delimiter; #XX is one byte.
// Result: (decoded bytes, index where the token ends), None if a '#' is not followed by two hex digits.
pub open spec fn name_dec(t: Seq<u8>, i: int, acc: Seq<u8>) -> Option<(Seq<u8>, int)> decreases t.len() - i
{
    if i < 0 || i >= t.len() || is_ws(t[i]) || is_delim(t[i]) { Some((acc, i)) }
    else if t[i] == 0x23 {
        if i + 2 < t.len() && hex_val(t[i + 1]) >= 0 && hex_val(t[i + 2]) >= 0 {
            name_dec(t, i + 3, acc.push((hex_val(t[i + 1]) * 16 + hex_val(t[i + 2])) as u8))
        } else { None }
    } else { name_dec(t, i + 1, acc.push(t[i])) }
}

// ---- escaping: bytes satisfying `safe` are copied, every other byte is written as #XX (upper-case hex) ----------------
pub open spec fn safe_ok(safe: spec_fn(u8) -> bool) -> bool { forall|b: u8| #[trigger] safe(b) ==> !is_ws(b) && !is_delim(b) && b != 0x23u8 }
pub open spec fn nesc1(safe: spec_fn(u8) -> bool, b: u8) -> Seq<u8> {
    if safe(b) { seq![b] } else { seq![0x23u8, hex_digit(b as int / 16), hex_digit(b as int % 16)] }
}
pub open spec fn nesc(safe: spec_fn(u8) -> bool, s: Seq<u8>) -> Seq<u8> decreases s.len() {
    if s.len() == 0 { Seq::empty() } else { nesc1(safe, s[0]) + nesc(safe, s.subrange(1, s.len() as int)) }
}
pub proof fn lemma_nesc_push(safe: spec_fn(u8) -> bool, s: Seq<u8>, b: u8)
    ensures nesc(safe, s.push(b)) == nesc(safe, s) + nesc1(safe, b),
    decreases s.len()
{
    if s.len() == 0 {
        let sp = s.push(b);
        assert(sp.len() == 1 && sp[0] == b);
        assert(sp.subrange(1, sp.len() as int) =~= Seq::<u8>::empty());
        assert(nesc(safe, Seq::<u8>::empty()) =~= Seq::<u8>::empty());
        assert(nesc(safe, sp) == nesc1(safe, sp[0]) + nesc(safe, sp.subrange(1, sp.len() as int)));
        assert(nesc1(safe, b) + Seq::<u8>::empty() =~= nesc1(safe, b));
        assert(nesc(safe, s) + nesc1(safe, b) =~= nesc1(safe, b));
    } else {
        let t = s.subrange(1, s.len() as int);
        assert(s.push(b).subrange(1, s.len() as int + 1) =~= t.push(b));
        lemma_nesc_push(safe, t, b);
        assert(nesc1(safe, s[0]) + (nesc(safe, t) + nesc1(safe, b)) =~= (nesc1(safe, s[0]) + nesc(safe, t)) + nesc1(safe, b));
    }
}
pub proof fn lemma_hex_digit(n: int)
    requires 0 <= n < 16,
    ensures hex_val(hex_digit(n)) == n, !is_ws(hex_digit(n)), !is_delim(hex_digit(n)),
{}
// an ISO reader gets the original bytes back from the escaped token, whatever follows it (end of input, white space or a delimiter)
pub proof fn lemma_name_roundtrip(safe: spec_fn(u8) -> bool, s: Seq<u8>, pre: Seq<u8>, rest: Seq<u8>, acc: Seq<u8>)
    requires safe_ok(safe), rest.len() == 0 || is_ws(rest[0]) || is_delim(rest[0]),
    ensures name_dec(pre + nesc(safe, s) + rest, pre.len() as int, acc) == Some((acc + s, (pre.len() + nesc(safe, s).len()) as int)),
    decreases s.len()
{
    let t = pre + nesc(safe, s) + rest;
    let i = pre.len() as int;
    if s.len() == 0 {
        assert(nesc(safe, s) =~= Seq::<u8>::empty());
        assert(acc + s =~= acc);
        if rest.len() > 0 { assert(t[i] == rest[0]); }
    } else {
        let b = s[0];
        let tail = s.subrange(1, s.len() as int);
        let pre2 = pre + nesc1(safe, b);
        assert(nesc(safe, s) == nesc1(safe, b) + nesc(safe, tail));
        assert(t =~= pre2 + nesc(safe, tail) + rest);
        lemma_name_roundtrip(safe, tail, pre2, rest, acc.push(b));
        assert(acc.push(b) + tail =~= acc + s);
        assert(nesc(safe, s).len() == nesc1(safe, b).len() + nesc(safe, tail).len());
        if safe(b) {
            assert(t[i] == b);
        } else {
            lemma_hex_digit(b as int / 16); lemma_hex_digit(b as int % 16);
            assert(t[i] == 0x23u8);
            assert(t[i + 1] == hex_digit(b as int / 16));
            assert(t[i + 2] == hex_digit(b as int % 16));
            assert((b as int / 16) * 16 + b as int % 16 == b as int);
        }
    }
}
// the safe sets of the two writers
pub open spec fn incr_safe(b: u8) -> bool {
    (0x30 <= b <= 0x39) || (0x41 <= b <= 0x5A) || (0x61 <= b <= 0x7A)
    || b == 0x2B || b == 0x2D || b == 0x2E || b == 0x5F || b == 0x40 || b == 0x24 || b == 0x3A || b == 0x3B || b == 0x2A || b == 0x3F
}
pub open spec fn main_safe(b: u8) -> bool { b > 0x20 && b != 0x7F && !is_delim(b) && b != 0x23 }
pub proof fn lemma_safe_sets() ensures safe_ok(|b: u8| incr_safe(b)), safe_ok(|b: u8| main_safe(b)) {}
