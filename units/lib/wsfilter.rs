// R21 stub: `data.iter().filter(|&&b| !b.is_ascii_whitespace())` as a specified iterator.
// Trusted transcription of Iterator::filter / slice::Iter::next: yields, in order, exactly the bytes of `data` that
// are not ASCII white space (u8::is_ascii_whitespace: SP, HT, LF, FF, CR).
pub open spec fn ascii_ws(b: u8) -> bool { b == 0x20 || b == 0x09 || b == 0x0A || b == 0x0C || b == 0x0D }
pub open spec fn non_ws(s: Seq<u8>) -> Seq<u8> { s.filter(|b: u8| !ascii_ws(b)) }
#[verifier::external_body]
pub struct WsFilterIter<'a> { it: std::iter::Filter<std::slice::Iter<'a, u8>, fn(&&u8) -> bool> }
impl<'a> WsFilterIter<'a> {
    pub uninterp spec fn rem(&self) -> Seq<u8>;
    #[verifier::external_body]
    pub fn next(&mut self) -> (r: Option<&'a u8>)
        ensures match r {
            Some(b) => old(self).rem().len() > 0 && *b == old(self).rem()[0] && final(self).rem() == old(self).rem().drop_first(),
            None => old(self).rem().len() == 0 && final(self).rem() == old(self).rem(),
        }
    { self.it.next() }
    #[verifier::external_body]
    pub fn clone(&self) -> (r: Self) ensures r.rem() == self.rem() { WsFilterIter { it: self.it.clone() } }
}
#[verifier::external_body]
pub fn ws_filter_iter<'a>(data: &'a [u8]) -> (r: WsFilterIter<'a>)
    ensures r.rem() == non_ws(data@)
{ fn keep(b: &&u8) -> bool { !b.is_ascii_whitespace() } WsFilterIter { it: data.iter().filter(keep as fn(&&u8) -> bool) } }
