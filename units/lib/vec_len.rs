// Language guarantee, listed as an assumption (COMMON_ASSUMPTIONS: "slice/Vec lengths <= isize::MAX"): a Vec<u8> never holds
// more than isize::MAX bytes (std::vec::Vec documentation; exceeding it is a capacity-overflow abort = allocation failure).
#[verifier::external_body]
proof fn axiom_vec_u8_len(v: &Vec<u8>) ensures v@.len() <= 0x7fff_ffff_ffff_ffff {}
// Same guarantee for slices (core::slice documentation: "the total size len * size_of::<T>() of the slice must be no larger than isize::MAX")
#[verifier::external_body]
proof fn axiom_slice_u8_len(s: &[u8]) ensures s@.len() <= 0x7fff_ffff_ffff_ffff {}
