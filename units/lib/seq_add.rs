// proved Seq concatenation lemmas
pub broadcast proof fn b_seq_assoc<A>(a: Seq<A>, b: Seq<A>, c: Seq<A>)
    ensures #[trigger] (a + (b + c)) == (a + b) + c
{ assert(a + (b + c) =~= (a + b) + c); }
pub broadcast proof fn b_seq_empty_r<A>(a: Seq<A>)
    ensures #[trigger] (a + Seq::<A>::empty()) == a
{ assert(a + Seq::<A>::empty() =~= a); }
pub broadcast proof fn b_seq_empty_l<A>(a: Seq<A>)
    ensures #[trigger] (Seq::<A>::empty() + a) == a
{ assert(Seq::<A>::empty() + a =~= a); }
pub broadcast group seq_add_lemmas { b_seq_assoc, b_seq_empty_r, b_seq_empty_l }
