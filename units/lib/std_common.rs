// T-list: trusted std specifications (one-line transcriptions of the std documentation) for functions vstd does not cover.
// Included by `//@ stdlib`; an entry is skipped when the unit already declares the same function (key = text after `//key:`).
//key: ::copied]
pub assume_specification<'a, T: Copy> [std::option::Option::<&T>::copied] (o: std::option::Option<&'a T>) -> (r: std::option::Option<T>)
    ensures r == match o { Some(x) => Some(*x), None => None };
//key: [core::cmp::max]
pub assume_specification<T: Ord> [core::cmp::max] (a: T, b: T) -> (r: T)
    ensures r == a || r == b;
//key: [core::cmp::min]
pub assume_specification<T: Ord> [core::cmp::min] (a: T, b: T) -> (r: T)
    ensures r == a || r == b;
//key: [u8::is_ascii_digit]
pub assume_specification [u8::is_ascii_digit] (b: &u8) -> (r: bool)
    ensures r == (0x30 <= *b <= 0x39);
//key: ::contains]
// <[T]>::contains for element types whose == is structural equality (u8, u16, char ... as used in this crate's byte classifiers)
pub assume_specification<T: PartialEq> [<[T]>::contains] (s: &[T], x: &T) -> (r: bool)
    ensures r == s@.contains(*x);
//key: [u8::is_ascii_graphic]
pub assume_specification [u8::is_ascii_graphic] (b: &u8) -> (r: bool)
    ensures r == (0x21 <= *b <= 0x7E);
//key: [u8::is_ascii_alphabetic]
pub assume_specification [u8::is_ascii_alphabetic] (b: &u8) -> (r: bool)
    ensures r == ((0x41 <= *b <= 0x5A) || (0x61 <= *b <= 0x7A));
//key: [u8::is_ascii_whitespace]
pub assume_specification [u8::is_ascii_whitespace] (b: &u8) -> (r: bool)
    ensures r == (*b == 0x20 || *b == 0x09 || *b == 0x0A || *b == 0x0C || *b == 0x0D);
//key: [u8::is_ascii_hexdigit]
pub assume_specification [u8::is_ascii_hexdigit] (b: &u8) -> (r: bool)
    ensures r == ((0x30 <= *b <= 0x39) || (0x41 <= *b <= 0x46) || (0x61 <= *b <= 0x66));
//key: [i64::abs]
pub assume_specification [i64::abs] (a: i64) -> (r: i64)
    requires a != i64::MIN,
    ensures r as int == if a < 0 { -(a as int) } else { a as int };
//key: [u32::abs_diff]
pub assume_specification [u32::abs_diff] (a: u32, b: u32) -> (r: u32)
    ensures r as int == if a < b { b - a } else { a - b };
//key: [usize::abs_diff]
pub assume_specification [usize::abs_diff] (a: usize, b: usize) -> (r: usize)
    ensures r as int == if a < b { b - a } else { a - b };
//key: ::reverse]
pub assume_specification<T> [<[T]>::reverse] (s: &mut [T])
    ensures final(s)@ == old(s)@.reverse();
//key: ::is_some_and]
pub assume_specification<T, F: FnOnce(T) -> bool> [Option::<T>::is_some_and] (o: Option<T>, f: F) -> (r: bool)
    requires o matches Some(x) ==> call_requires(f, (x,)),
    ensures o is None ==> !r, o matches Some(x) ==> call_ensures(f, (x,), r);
//key: [String::as_bytes]
pub uninterp spec fn std_utf8(s: Seq<char>) -> Seq<u8>;
pub assume_specification [String::as_bytes] (s: &String) -> (r: &[u8])
    ensures r@ == std_utf8(s@);
