pub assume_specification<'a, T: Copy> [std::option::Option::<&T>::copied] (o: std::option::Option<&'a T>) -> (r: std::option::Option<T>)
    ensures r == (match o { Some(x) => Some(*x), None => None });

// R14 stubs: the body is the original std call; the spec is the definition of big-endian
#[verifier::external_body]
fn be_u16(a: u8, b: u8) -> (r: u16) ensures r as int == a as int * 256 + b as int { u16::from_be_bytes([a, b]) }
#[verifier::external_body]
fn be_i16(a: u8, b: u8) -> (r: i16) ensures (r >= 0) == (a < 128), r as int == (if a < 128 { a as int * 256 + b as int } else { a as int * 256 + b as int - 65536 }) { i16::from_be_bytes([a, b]) }
#[verifier::external_body]
fn be_u32(a: u8, b: u8, c: u8, d: u8) -> (r: u32)
    ensures r as int == ((a as int * 256 + b as int) * 256 + c as int) * 256 + d as int
{ u32::from_be_bytes([a, b, c, d]) }

// OpenType glyf table, composite glyph description: component record = flags(u16) glyphIndex(u16) args transform
pub open spec fn u16_at(g: Seq<u8>, p: int) -> int { g[p] as int * 256 + g[p + 1] as int }
pub open spec fn comp_size(flags: u16) -> int {
    4 + (if flags & 0x0001 != 0 { 4int } else { 2int })
      + (if flags & 0x0080 != 0 { 8int } else if flags & 0x0040 != 0 { 4int } else if flags & 0x0008 != 0 { 2int } else { 0int })
}
// start offsets of the component records reached from `cursor`
pub open spec fn comp_starts(g: Seq<u8>, cursor: int) -> Seq<int> decreases g.len() + 16 - cursor
{
    if cursor < 0 || cursor + 4 > g.len() { Seq::empty() }
    else {
        let flags = u16_at(g, cursor) as u16;
        if flags & 0x0020 == 0 || comp_size(flags) < 6 { seq![cursor] } else { seq![cursor] + comp_starts(g, cursor + comp_size(flags)) }
    }
}
pub open spec fn is_composite(g: Seq<u8>) -> bool { g.len() >= 12 && g[0] >= 128 }
pub open spec fn gids_at(g: Seq<u8>, starts: Seq<int>) -> Seq<u16> { Seq::new(starts.len(), |k: int| u16_at(g, starts[k] + 2) as u16) }

pub open spec fn in_gid_field(starts: Seq<int>, k: int) -> bool {
    exists|j: int| 0 <= j < starts.len() && (k == #[trigger] starts[j] + 2 || k == starts[j] + 3)
}
pub open spec fn mapped(m: Map<u16, u16>, old: u16) -> u16 { if m.contains_key(old) { m[old] } else { 0u16 } }
pub proof fn lemma_split_u16(n: u16)
    ensures (#[verifier::truncate] ((n >> 8) as u8)) as int * 256 + (#[verifier::truncate] ((n & 0xFF) as u8)) as int == n as int
{
    assert((#[verifier::truncate] ((n >> 8u16) as u8)) as u16 * 256 + (#[verifier::truncate] ((n & 0xFFu16) as u8)) as u16 == n) by (bit_vector);
}
