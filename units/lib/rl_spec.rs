// ISO 32000-1 7.4.5 RunLengthDecode, transcribed: length byte L: 0..127 copy L+1 bytes; 129..255 repeat next byte 257-L times; 128 EOD.
// None = malformed (truncated run). Decoding starts at index i.
pub open spec fn rl_decode(d: Seq<u8>, i: int) -> Option<Seq<u8>>
    decreases d.len() - i
{
    if i < 0 || i >= d.len() { Some(Seq::empty()) }
    else {
        let l = d[i];
        if l == 128 { Some(Seq::empty()) }
        else if l < 128 {
            let count = l as int + 1;
            if i + 1 + count > d.len() { None }
            else {
                match rl_decode(d, i + 1 + count) {
                    Some(rest) => Some(d.subrange(i + 1, i + 1 + count) + rest),
                    None => None,
                }
            }
        } else {
            if i + 1 >= d.len() { None }
            else {
                let count = 257 - l as int;
                match rl_decode(d, i + 2) {
                    Some(rest) => Some(Seq::new(count as nat, |k: int| d[i + 1]) + rest),
                    None => None,
                }
            }
        }
    }
}

// "everything decoded so far, followed by whatever the rest decodes to, is the answer"
pub open spec fn rl_inv(d: Seq<u8>, i: int, acc: Seq<u8>) -> bool {
    match rl_decode(d, i) {
        Some(rest) => rl_decode(d, 0) == Some(acc + rest),
        None => rl_decode(d, 0).is_none(),
    }
}

spec fn as_i8(b: u8) -> i8 { #[verifier::truncate] (b as i8) }
proof fn lemma_i8(b: u8)
    ensures as_i8(b) as int == (if b < 128 { b as int } else { b as int - 256 })
{
    assert(#[verifier::truncate] (b as i8) as int == (if b < 128u8 { b as int } else { b as int - 256 })) by (bit_vector);
}
