// RC4 as defined (KSA / PRGA); <[T]>::swap spec is a transcription of the std documentation (trusted)
pub assume_specification<T> [<[T]>::swap] (s: &mut [T], a: usize, b: usize)
    requires a < old(s)@.len(), b < old(s)@.len(),
    ensures final(s)@ == old(s)@.update(a as int, old(s)@[b as int]).update(b as int, old(s)@[a as int]);

pub open spec fn swap_seq(s: Seq<u8>, a: int, b: int) -> Seq<u8> { s.update(a, s[b]).update(b, s[a]) }

// ---- RC4 as defined (KSA / PRGA) ----
pub struct St { pub s: Seq<u8>, pub i: int, pub j: int }

pub open spec fn ksa(key: Seq<u8>, n: nat) -> (Seq<u8>, int)
    decreases n
{
    if n == 0 { (Seq::new(256, |k: int| k as u8), 0) }
    else {
        let (s, j) = ksa(key, (n - 1) as nat);
        let i = n - 1;
        let j2 = (j + s[i] as int + key[i % key.len() as int] as int) % 256;
        (swap_seq(s, i, j2), j2)
    }
}
pub open spec fn step(st: St) -> St {
    let i = (st.i + 1) % 256;
    let j = (st.j + st.s[i] as int) % 256;
    St { s: swap_seq(st.s, i, j), i, j }
}
pub open spec fn after(st: St, n: nat) -> St decreases n {
    if n == 0 { st } else { step(after(st, (n - 1) as nat)) }
}
// keystream byte produced by the n-th step (n >= 1)
pub open spec fn ks(st: St, n: nat) -> u8 {
    let a = after(st, n);
    a.s[(a.s[a.i] as int + a.s[a.j] as int) % 256]
}


pub proof fn lemma_xor_involution(a: u8, k: u8) ensures (a ^ k) ^ k == a { assert((a ^ k) ^ k == a) by (bit_vector); }
