// Reference encoder (ISO 32000-1 7.4.5): any sequence of literal runs (1..=128 bytes) and repeat runs (2..=128 copies),
// followed by EOD (128) and arbitrary trailing bytes. Lemma: the spec decoder returns exactly the expanded runs.
pub enum Run { Lit(Seq<u8>), Rep(u8, int) }
pub open spec fn run_ok(r: Run) -> bool { match r { Run::Lit(s) => 1 <= s.len() <= 128, Run::Rep(b, n) => 2 <= n <= 128 } }
pub open spec fn run_enc(r: Run) -> Seq<u8> {
    match r { Run::Lit(s) => seq![(s.len() - 1) as u8] + s, Run::Rep(b, n) => seq![(257 - n) as u8, b] }
}
pub open spec fn run_exp(r: Run) -> Seq<u8> { match r { Run::Lit(s) => s, Run::Rep(b, n) => Seq::new(n as nat, |k: int| b) } }
pub open spec fn enc_all(rs: Seq<Run>) -> Seq<u8> decreases rs.len()
{ if rs.len() == 0 { Seq::empty() } else { run_enc(rs[0]) + enc_all(rs.drop_first()) } }
pub open spec fn exp_all(rs: Seq<Run>) -> Seq<u8> decreases rs.len()
{ if rs.len() == 0 { Seq::empty() } else { run_exp(rs[0]) + exp_all(rs.drop_first()) } }

pub proof fn lemma_rl_roundtrip(d: Seq<u8>, i: int, rs: Seq<Run>, junk: Seq<u8>)
    requires 0 <= i <= d.len(), d.subrange(i, d.len() as int) == enc_all(rs) + seq![128u8] + junk,
        forall|k: int| 0 <= k < rs.len() ==> run_ok(#[trigger] rs[k]),
    ensures rl_decode(d, i) == Some(exp_all(rs)),
    decreases rs.len()
{
    let tail = d.subrange(i, d.len() as int);
    if rs.len() == 0 {
        assert(enc_all(rs) =~= Seq::<u8>::empty());
        assert(tail[0] == 128u8);
        assert(d[i] == tail[0]);
    } else {
        let r = rs[0];
        let rest = rs.drop_first();
        assert(run_ok(rs[0]));
        assert forall|k: int| 0 <= k < rest.len() implies run_ok(#[trigger] rest[k]) by { assert(rest[k] == rs[k + 1]); }
        let e = run_enc(r);
        let after = enc_all(rest) + seq![128u8] + junk;
        assert(tail =~= e + after);
        assert(forall|k: int| 0 <= k < e.len() ==> d[i + k] == tail[k] && tail[k] == e[k]);
        let j = i + e.len();
        assert(d.subrange(j, d.len() as int) =~= after) by {
            assert forall|k: int| 0 <= k < after.len() implies d.subrange(j, d.len() as int)[k] == after[k] by {
                assert(d[j + k] == tail[e.len() + k]);
            }
        }
        lemma_rl_roundtrip(d, j, rest, junk);
        match r {
            Run::Lit(s) => {
                assert(e[0] == (s.len() - 1) as u8);
                assert(d[i] == e[0]);
                assert(d.subrange(i + 1, i + 1 + s.len()) =~= s) by {
                    assert forall|k: int| 0 <= k < s.len() implies d.subrange(i + 1, i + 1 + s.len())[k] == s[k] by {
                        assert(d[i + 1 + k] == e[1 + k]);
                    }
                }
            }
            Run::Rep(b, n) => {
                assert(d[i] == e[0]);
                assert(d[i + 1] == e[1]);
                assert(e[0] == (257 - n) as u8);
                assert(Seq::new((257 - d[i] as int) as nat, |k: int| d[i + 1]) =~= Seq::new(n as nat, |k: int| b));
            }
        }
    }
}
