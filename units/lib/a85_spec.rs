// ISO 32000-1 7.4.3 ASCII85Decode on the white-space-free byte sequence f.
pub open spec fn pow85(n: nat) -> int decreases n { if n == 0 { 1 } else { 85 * pow85((n - 1) as nat) } }
#[verifier::opaque]
pub open spec fn a85_val(g: Seq<u8>) -> int decreases g.len() {
    if g.len() == 0 { 0 } else { a85_val(g.drop_last()) * 85 + (g.last() - 0x21) }
}
pub open spec fn a85_digits(g: Seq<u8>) -> bool { forall|k: int| 0 <= k < g.len() ==> 0x21 <= #[trigger] g[k] <= 0x75 }
#[verifier::opaque]
pub open spec fn be4(v: int) -> Seq<u8> {
    seq![((v / 0x100_0000) % 256) as u8, ((v / 0x1_0000) % 256) as u8, ((v / 0x100) % 256) as u8, (v % 256) as u8]
}
pub open spec fn pad_u(g: Seq<u8>) -> Seq<u8> { g + Seq::new((5 - g.len()) as nat, |k: int| 0x75u8) }
// end of data with a pending partial group g: pad with 'u', keep |g| - 1 bytes
pub open spec fn a85_finish(g: Seq<u8>, acc: Seq<u8>) -> Option<Seq<u8>> {
    if g.len() == 0 || g.len() >= 5 { Some(acc) }
    else { let v = a85_val(pad_u(g)); if v > 0xFFFF_FFFF { None } else { Some(acc + be4(v).subrange(0, g.len() - 1)) } }
}
pub open spec fn a85_stream(f: Seq<u8>, i: int, g: Seq<u8>, acc: Seq<u8>) -> Option<Seq<u8>> decreases f.len() - i
{
    if i < 0 || i >= f.len() { a85_finish(g, acc) }
    else {
        let c = f[i];
        if c == 0x7E { if i + 1 < f.len() && f[i + 1] == 0x3E { a85_finish(g, acc) } else { None } }
        else if c == 0x7A && g.len() == 0 { a85_stream(f, i + 1, g, acc + seq![0u8, 0u8, 0u8, 0u8]) }
        else if 0x21 <= c <= 0x75 {
            let g2 = g.push(c);
            if g2.len() == 5 {
                let v = a85_val(g2);
                if v > 0xFFFF_FFFF { None } else { a85_stream(f, i + 1, Seq::empty(), acc + be4(v)) }
            } else { a85_stream(f, i + 1, g2, acc) }
        } else { None }
    }
}
// the optional "<~" prefix (Adobe btoa convention) is skipped; a lone '<' is an ordinary digit
pub open spec fn a85_start(f: Seq<u8>) -> int { if f.len() >= 2 && f[0] == 0x3C && f[1] == 0x7E { 2 } else { 0 } }
pub open spec fn a85_decode(f: Seq<u8>) -> Option<Seq<u8>> { a85_stream(f, a85_start(f), Seq::empty(), Seq::empty()) }

pub proof fn lemma_a85_grows(f: Seq<u8>, i: int, g: Seq<u8>, acc: Seq<u8>)
    ensures a85_stream(f, i, g, acc) is Some ==> a85_stream(f, i, g, acc)->Some_0.len() >= acc.len(),
    decreases f.len() - i
{
    if !(i < 0 || i >= f.len()) {
        let c = f[i];
        if c == 0x7E { }
        else if c == 0x7A && g.len() == 0 { lemma_a85_grows(f, i + 1, g, acc + seq![0u8, 0u8, 0u8, 0u8]); }
        else if 0x21 <= c <= 0x75 {
            let g2 = g.push(c);
            if g2.len() == 5 { let v = a85_val(g2); if v <= 0xFFFF_FFFF { lemma_a85_grows(f, i + 1, Seq::empty(), acc + be4(v)); } }
            else { lemma_a85_grows(f, i + 1, g2, acc); }
        }
    }
}
pub proof fn lemma_a85_bound(g: Seq<u8>)
    requires a85_digits(g), g.len() <= 5,
    ensures 0 <= a85_val(g) < pow85(g.len()),
    decreases g.len()
{
    reveal_with_fuel(pow85, 7);
    reveal_with_fuel(a85_val, 2);
    if g.len() > 0 { lemma_a85_bound(g.drop_last()); assert(g.drop_last().len() == g.len() - 1); assert(pow85(g.len()) == 85 * pow85((g.len() - 1) as nat)); }
}
pub proof fn lemma_be4(v: u32)
    ensures be4(v as int) == seq![#[verifier::truncate] ((v >> 24u32) as u8), #[verifier::truncate] ((v >> 16u32) as u8), #[verifier::truncate] ((v >> 8u32) as u8), #[verifier::truncate] (v as u8)],
        be4(v as int).len() == 4,
{
    reveal(be4);
    assert((#[verifier::truncate] ((v >> 24u32) as u8)) as u32 == (v / 0x100_0000u32) % 256u32) by (bit_vector);
    assert((#[verifier::truncate] ((v >> 16u32) as u8)) as u32 == (v / 0x1_0000u32) % 256u32) by (bit_vector);
    assert((#[verifier::truncate] ((v >> 8u32) as u8)) as u32 == (v / 0x100u32) % 256u32) by (bit_vector);
    assert((#[verifier::truncate] (v as u8)) as u32 == v % 256u32) by (bit_vector);
    assert(be4(v as int) =~= seq![#[verifier::truncate] ((v >> 24u32) as u8), #[verifier::truncate] ((v >> 16u32) as u8), #[verifier::truncate] ((v >> 8u32) as u8), #[verifier::truncate] (v as u8)]);
}

pub proof fn lemma_be4_idx(v: u32, i: usize)
    requires i < 4,
    ensures be4(v as int)[i as int] == #[verifier::truncate] ((v >> ((24 - 8 * i) as usize)) as u8), be4(v as int).len() == 4,
{
    reveal(be4);
    if i == 0 { assert((#[verifier::truncate] ((v >> 24usize) as u8)) as u32 == (v / 0x100_0000u32) % 256u32) by (bit_vector); }
    else if i == 1 { assert((#[verifier::truncate] ((v >> 16usize) as u8)) as u32 == (v / 0x1_0000u32) % 256u32) by (bit_vector); }
    else if i == 2 { assert((#[verifier::truncate] ((v >> 8usize) as u8)) as u32 == (v / 0x100u32) % 256u32) by (bit_vector); }
    else { assert((#[verifier::truncate] ((v >> 0usize) as u8)) as u32 == v % 256u32) by (bit_vector); }
}

pub proof fn lemma_be4_len(v: int) ensures be4(v).len() == 4 { reveal(be4); }
