// text/encoding.rs::escape_show_text_literal_bytes: named escapes, printable pass-through, \ooo otherwise (ISO 32000-1 Table 3)
pub open spec fn oct3(b: u8) -> Seq<u8> { seq![0x5Cu8, (0x30 + b as int / 64) as u8, (0x30 + (b as int / 8) % 8) as u8, (0x30 + b as int % 8) as u8] }
pub open spec fn sesc1(b: u8) -> Seq<u8> {
    if b == 0x28 { seq![0x5Cu8, 0x28u8] } else if b == 0x29 { seq![0x5Cu8, 0x29u8] } else if b == 0x5C { seq![0x5Cu8, 0x5Cu8] }
    else if b == 0x0A { seq![0x5Cu8, 0x6Eu8] } else if b == 0x0D { seq![0x5Cu8, 0x72u8] } else if b == 0x09 { seq![0x5Cu8, 0x74u8] }
    else if b == 0x08 { seq![0x5Cu8, 0x62u8] } else if b == 0x0C { seq![0x5Cu8, 0x66u8] }
    else if 0x20 <= b <= 0x7E { seq![b] } else { oct3(b) }
}
pub open spec fn sesc(s: Seq<u8>) -> Seq<u8> decreases s.len() {
    if s.len() == 0 { Seq::empty() } else { sesc1(s[0]) + sesc(s.subrange(1, s.len() as int)) }
}
pub proof fn lemma_sesc_push(s: Seq<u8>, b: u8)
    ensures sesc(s.push(b)) == sesc(s) + sesc1(b),
    decreases s.len()
{
    if s.len() == 0 {
        let sp = s.push(b);
        assert(sp.len() == 1 && sp[0] == b);
        assert(sp.subrange(1, sp.len() as int) =~= Seq::<u8>::empty());
        assert(sesc(Seq::<u8>::empty()) =~= Seq::<u8>::empty());
        assert(sesc(sp) == sesc1(sp[0]) + sesc(sp.subrange(1, sp.len() as int)));
        assert(sesc1(b) + Seq::<u8>::empty() =~= sesc1(b));
        assert(sesc(s) + sesc1(b) =~= sesc1(b));
    } else {
        let t = s.subrange(1, s.len() as int);
        assert(s.push(b).subrange(1, s.len() as int + 1) =~= t.push(b));
        lemma_sesc_push(t, b);
        assert(sesc1(s[0]) + (sesc(t) + sesc1(b)) =~= (sesc1(s[0]) + sesc(t)) + sesc1(b));
    }
}
// the content-stream tokenizer (and any ISO reader: no raw EOL byte is ever emitted) reads the original bytes back
#[verifier::spinoff_prover]
pub proof fn lemma_show_roundtrip(s: Seq<u8>, pre: Seq<u8>, rest: Seq<u8>, acc: Seq<u8>)
    ensures lit_dec(pre + sesc(s) + seq![0x29u8] + rest, pre.len() as int, 1, acc) == (acc + s, (pre.len() + sesc(s).len() + 1) as int),
    decreases s.len()
{
    let t = pre + sesc(s) + seq![0x29u8] + rest;
    let i = pre.len() as int;
    if s.len() == 0 {
        assert(sesc(s) =~= Seq::<u8>::empty());
        assert(t[i] == 0x29u8);
        assert(acc + s =~= acc);
    } else {
        let b = s[0];
        let tail = s.subrange(1, s.len() as int);
        let pre2 = pre + sesc1(b);
        assert(sesc(s) == sesc1(b) + sesc(tail));
        assert(t =~= pre2 + sesc(tail) + seq![0x29u8] + rest);
        lemma_show_roundtrip(tail, pre2, rest, acc.push(b));
        assert(acc.push(b) + tail =~= acc + s);
        assert(sesc(s).len() == sesc1(b).len() + sesc(tail).len());
        let e = sesc1(b);
        assert(forall|k: int| 0 <= k < e.len() ==> t[i + k] == e[k]);
        if b == 0x28 || b == 0x29 || b == 0x5C || b == 0x0A || b == 0x0D || b == 0x09 || b == 0x08 || b == 0x0C {
            assert(t[i] == 0x5Cu8 && t[i + 1] == e[1]);
            assert(!is_oct(e[1]));
            assert(simple_escape(e[1]) == b);
        } else if 0x20 <= b <= 0x7E {
            assert(t[i] == b);
        } else {
            assert(t[i] == 0x5Cu8);
            assert(is_oct(t[i + 1]) && is_oct(t[i + 2]) && is_oct(t[i + 3]));
            let v = ((t[i + 1] - 0x30u8) as int * 8 + (t[i + 2] - 0x30u8) as int) * 8 + (t[i + 3] - 0x30u8) as int;
            assert(v == b as int) by {
                assert(t[i + 1] as int - 0x30 == b as int / 64);
                assert(t[i + 2] as int - 0x30 == (b as int / 8) % 8);
                assert(t[i + 3] as int - 0x30 == b as int % 8);
            }
        }
    }
}
