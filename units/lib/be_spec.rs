pub open spec fn pow256(w: nat) -> nat decreases w { if w == 0 { 1 } else { 256 * pow256((w - 1) as nat) } }
// big-endian value of a byte sequence (ISO 32000-1 7.5.8.3: fields are big-endian)
pub open spec fn be_val(s: Seq<u8>) -> nat decreases s.len() {
    if s.len() == 0 { 0 } else { be_val(s.drop_last()) * 256 + s.last() as nat }
}
pub proof fn lemma_pow256_values()
    ensures pow256(0) == 1, pow256(1) == 256, pow256(2) == 0x1_0000, pow256(3) == 0x100_0000, pow256(4) == 0x1_0000_0000,
        pow256(5) == 0x100_0000_0000, pow256(6) == 0x1_0000_0000_0000, pow256(7) == 0x100_0000_0000_0000,
        pow256(8) == 0x1_0000_0000_0000_0000,
{
    reveal_with_fuel(pow256, 10);
}
pub proof fn lemma_shift(v: u64, i: u64)
    requires i < 8,
    ensures ((v >> (i * 8)) & 0xFF) as nat == (v as nat / pow256(i as nat)) % 256,
{
    lemma_pow256_values();
    if i == 0 { assert(i * 8 == 0); assert(v as nat / 1 == v as nat); assert((v >> 0u64) & 0xFF == v % 256) by (bit_vector); }
    else if i == 1 { assert(i * 8 == 8); assert((v >> 8u64) & 0xFF == (v / 0x100) % 256) by (bit_vector); }
    else if i == 2 { assert(i * 8 == 16); assert((v >> 16u64) & 0xFF == (v / 0x1_0000) % 256) by (bit_vector); }
    else if i == 3 { assert(i * 8 == 24); assert((v >> 24u64) & 0xFF == (v / 0x100_0000) % 256) by (bit_vector); }
    else if i == 4 { assert(i * 8 == 32); assert((v >> 32u64) & 0xFF == (v / 0x1_0000_0000) % 256) by (bit_vector); }
    else if i == 5 { assert(i * 8 == 40); assert((v >> 40u64) & 0xFF == (v / 0x100_0000_0000) % 256) by (bit_vector); }
    else if i == 6 { assert(i * 8 == 48); assert((v >> 48u64) & 0xFF == (v / 0x1_0000_0000_0000) % 256) by (bit_vector); }
    else { assert(i == 7); assert(i * 8 == 56); assert((v >> 56u64) & 0xFF == (v / 0x100_0000_0000_0000) % 256) by (bit_vector); }
}
// digit k (0 = most significant) of the w-digit base-256 representation of v
pub open spec fn be_digit(v: nat, w: nat, k: nat) -> nat { (v / pow256((w - 1 - k) as nat)) % 256 }
// a byte sequence whose digits are those of v has value v mod 256^w
pub proof fn lemma_be_val_digits(s: Seq<u8>, v: nat)
    requires forall|k: int| 0 <= k < s.len() ==> #[trigger] s[k] as nat == be_digit(v, s.len(), k as nat),
    ensures be_val(s) == v % pow256(s.len()),
    decreases s.len()
{
    if s.len() == 0 {
    } else {
        let w = s.len();
        let t = s.drop_last();
        let v1 = v / 256;
        assert forall|k: int| 0 <= k < t.len() implies #[trigger] t[k] as nat == be_digit(v1, t.len(), k as nat) by {
            assert(t[k] == s[k]);
            let e = (w - 1 - k) as nat;
            assert(e >= 1);
            assert(pow256(e) == 256 * pow256((e - 1) as nat));
            // (v / 256) / p == v / (256 * p)
            let pp = pow256((e - 1) as nat);
            lemma_pow256_pos((e - 1) as nat);
            vstd::arithmetic::div_mod::lemma_div_denominator(v as int, 256, pp as int);
            assert(v1 / pp == v / (256 * pp)) by { assert(256 * pp == pp * 256) by (nonlinear_arith); vstd::arithmetic::div_mod::lemma_div_denominator(v as int, 256, pp as int); }
        }
        lemma_be_val_digits(t, v1);
        assert(s.last() as nat == be_digit(v, w, (w - 1) as nat));
        assert(pow256(0) == 1);
        assert(be_digit(v, w, (w - 1) as nat) == (v / pow256(0)) % 256);
        assert(v / 1 == v);
        assert(s.last() as nat == v % 256);
        // be_val(s) = (v1 % 256^(w-1)) * 256 + v % 256 == v % 256^w
        let m = pow256((w - 1) as nat);
        lemma_pow256_pos((w - 1) as nat);
        assert(pow256(w) == 256 * m);
        lemma_mod_split(v, m);
    }
}
pub proof fn lemma_pow256_pos(w: nat) ensures pow256(w) > 0 decreases w
{ if w > 0 { lemma_pow256_pos((w - 1) as nat); assert(pow256(w) == 256 * pow256((w - 1) as nat)); assert(256 * pow256((w - 1) as nat) > 0) by (nonlinear_arith) requires pow256((w - 1) as nat) > 0; } }
pub proof fn lemma_mod_split(v: nat, m: nat)
    requires m > 0,
    ensures ((v / 256) % m) * 256 + v % 256 == v % (256 * m),
{
    // v = 256*q + r, q = m*a + b  =>  v = 256*m*a + 256*b + r with 256*b + r < 256*m
    let q = v / 256; let r = v % 256;
    let a = q / m; let b = q % m;
    assert(v == 256 * q + r) by { vstd::arithmetic::div_mod::lemma_fundamental_div_mod(v as int, 256); }
    assert(q == m * a + b) by { vstd::arithmetic::div_mod::lemma_fundamental_div_mod(q as int, m as int); }
    assert(b < m) by { vstd::arithmetic::div_mod::lemma_mod_bound(q as int, m as int); }
    assert(v == (256 * m) * a + (256 * b + r)) by (nonlinear_arith) requires v == 256 * q + r, q == m * a + b;
    assert(256 * b + r < 256 * m) by (nonlinear_arith) requires b < m, r < 256;
    vstd::arithmetic::div_mod::lemma_fundamental_div_mod_converse(v as int, (256 * m) as int, a as int, (256 * b + r) as int);
}
pub proof fn lemma_pow256_mono(a: nat, b: nat) requires a <= b ensures pow256(a) <= pow256(b) decreases b
{ if a < b { lemma_pow256_mono(a, (b - 1) as nat); lemma_pow256_pos((b - 1) as nat); assert(pow256(b) == 256 * pow256((b - 1) as nat)); } }

// replacing digit k changes the value by (new - old) * 256^(n-1-k)
pub proof fn lemma_be_val_update(s: Seq<u8>, k: int, v: u8)
    requires 0 <= k < s.len(),
    ensures be_val(s.update(k, v)) as int == be_val(s) as int + (v as int - s[k] as int) * pow256((s.len() - 1 - k) as nat) as int,
    decreases s.len()
{
    let n = s.len() as int;
    let u = s.update(k, v);
    let d = v as int - s[k] as int;
    assert(be_val(u) as int == be_val(u.drop_last()) as int * 256 + u.last() as int);
    assert(be_val(s) as int == be_val(s.drop_last()) as int * 256 + s.last() as int);
    if k == n - 1 {
        assert(u.drop_last() =~= s.drop_last());
        assert(pow256(0) == 1);
        assert((s.len() - 1 - k) as nat == 0);
        assert(d * (pow256(0) as int) == d) by (nonlinear_arith) requires pow256(0) == 1;
        assert(u.last() == v);
    } else {
        assert(u.drop_last() =~= s.drop_last().update(k, v));
        assert(u.last() == s.last());
        lemma_be_val_update(s.drop_last(), k, v);
        let e = (n - 2 - k) as nat;
        assert((s.drop_last().len() - 1 - k) as nat == e);
        assert((s.len() - 1 - k) as nat == e + 1);
        assert(pow256(e + 1) == 256 * pow256(e));
        let p = pow256(e) as int; let b0 = be_val(s.drop_last()) as int;
        assert(be_val(u.drop_last()) as int == b0 + d * p);
        assert((b0 + d * p) * 256 == b0 * 256 + d * (256 * p)) by (nonlinear_arith);
        assert(pow256(e + 1) as int == 256 * p);
    }
}
pub proof fn lemma_be_val_bound(s: Seq<u8>) ensures be_val(s) < pow256(s.len()) decreases s.len()
{ if s.len() > 0 { lemma_be_val_bound(s.drop_last()); assert(pow256(s.len()) == 256 * pow256((s.len() - 1) as nat)); } }
