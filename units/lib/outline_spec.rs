// ISO 32000-1 12.3.3 / Table 153: visible descendants and the signed /Count
spec fn sum_all(c: Seq<OutlineItem>) -> int decreases c, 0int {
    if c.len() == 0 { 0 } else { sum_all(c.drop_last()) + spec_count_all(c.last()) }
}
spec fn spec_count_all(it: OutlineItem) -> int decreases it, 1int {
    1 + sum_all(it.children@)
}
spec fn sum_vis(c: Seq<OutlineItem>) -> int decreases c, 0int {
    if c.len() == 0 { 0 } else { sum_vis(c.drop_last()) + spec_count_visible(c.last()) }
}
spec fn spec_count_visible(it: OutlineItem) -> int decreases it, 1int {
    1 + (if it.open { sum_vis(it.children@) } else { 0 })
}
// /Count of an item with children: number of descendants visible when the item is open; negated when it is closed
spec fn iso_count(it: OutlineItem) -> int {
    if it.open { sum_vis(it.children@) } else { -sum_vis(it.children@) }
}
proof fn lemma_sum_all_pos(c: Seq<OutlineItem>) ensures sum_all(c) >= 0 decreases c, 0int
{ if c.len() > 0 { lemma_sum_all_pos(c.drop_last()); lemma_count_all_pos(c.last()); } }
proof fn lemma_count_all_pos(it: OutlineItem) ensures spec_count_all(it) >= 1 decreases it, 1int
{ lemma_sum_all_pos(it.children@); }
proof fn lemma_vis_le_all_seq(c: Seq<OutlineItem>) ensures 0 <= sum_vis(c) <= sum_all(c) decreases c, 0int
{ if c.len() > 0 { lemma_vis_le_all_seq(c.drop_last()); lemma_vis_le_all(c.last()); } }
proof fn lemma_vis_le_all(it: OutlineItem) ensures 1 <= spec_count_visible(it) <= spec_count_all(it) decreases it, 1int
{ lemma_vis_le_all_seq(it.children@); }
proof fn lemma_prefix_le(c: Seq<OutlineItem>, k: int)
    requires 0 <= k <= c.len(),
    ensures sum_all(c.subrange(0, k)) <= sum_all(c), sum_vis(c.subrange(0, k)) <= sum_vis(c),
    decreases c.len() - k
{
    if k < c.len() {
        lemma_prefix_le(c, k + 1);
        assert(c.subrange(0, k + 1).drop_last() =~= c.subrange(0, k));
        lemma_count_all_pos(c.subrange(0, k + 1).last());
        lemma_vis_le_all(c.subrange(0, k + 1).last());
    } else {
        assert(c.subrange(0, k) =~= c);
    }
}
// element k of a Vec<OutlineItem> is structurally smaller than the item that owns the Vec (termination of recursion)
spec fn size_ok(it: OutlineItem) -> bool { spec_count_all(it) < 0x7fff_ffff_ffff_ffff }
