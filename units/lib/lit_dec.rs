// spec: the library's reading of a PDF literal string body (ISO 32000-1 7.3.4.2 incl. octal / named escapes, nesting)
// ---------- reader side: library reading of a literal string body ----------
pub open spec fn is_oct(b: u8) -> bool { 0x30 <= b <= 0x37 }
pub open spec fn simple_escape(e: u8) -> u8 {
    if e == 0x6Eu8 { 0x0Au8 } else if e == 0x72u8 { 0x0Du8 } else if e == 0x74u8 { 0x09u8 }
    else if e == 0x62u8 { 0x08u8 } else if e == 0x66u8 { 0x0Cu8 } else { e }
}
// returns (content, index after the closing paren)
pub open spec fn lit_dec(t: Seq<u8>, i: int, depth: int, acc: Seq<u8>) -> (Seq<u8>, int)
    decreases t.len() - i
{
    if i < 0 || i >= t.len() || depth <= 0 { (acc, i) }
    else {
        let ch = t[i];
        if ch == 0x5Cu8 {
            if i + 1 >= t.len() { (acc, i + 1) }
            else {
                let e = t[i + 1];
                if is_oct(e) {
                    // up to three octal digits, high-order overflow ignored
                    let v1 = (e - 0x30u8) as int;
                    if i + 2 < t.len() && is_oct(t[i + 2]) {
                        let v2 = v1 * 8 + (t[i + 2] - 0x30u8) as int;
                        if i + 3 < t.len() && is_oct(t[i + 3]) {
                            let v3 = v2 * 8 + (t[i + 3] - 0x30u8) as int;
                            lit_dec(t, i + 4, depth, acc.push((v3 % 256) as u8))
                        } else { lit_dec(t, i + 3, depth, acc.push((v2 % 256) as u8)) }
                    } else { lit_dec(t, i + 2, depth, acc.push((v1 % 256) as u8)) }
                } else {
                    lit_dec(t, i + 2, depth, acc.push(simple_escape(e)))
                }
            }
        } else if ch == 0x28u8 {
            lit_dec(t, i + 1, depth + 1, acc.push(ch))
        } else if ch == 0x29u8 {
            if depth - 1 > 0 { lit_dec(t, i + 1, depth - 1, acc.push(ch)) } else { (acc, i + 1) }
        } else {
            lit_dec(t, i + 1, depth, acc.push(ch))
        }
    }
}


// value and end position of an octal escape starting at i (t[i] is an octal digit)
pub open spec fn oct_val(t: Seq<u8>, i: int) -> (u8, int) {
    let v1 = (t[i] - 0x30u8) as int;
    if i + 1 < t.len() && is_oct(t[i + 1]) {
        let v2 = v1 * 8 + (t[i + 1] - 0x30u8) as int;
        if i + 2 < t.len() && is_oct(t[i + 2]) {
            let v3 = v2 * 8 + (t[i + 2] - 0x30u8) as int;
            ((v3 % 256) as u8, i + 3)
        } else { ((v2 % 256) as u8, i + 2) }
    } else { ((v1 % 256) as u8, i + 1) }
}

spec fn trunc8(v: u16) -> u8 { #[verifier::truncate] (v as u8) }
proof fn lemma_trunc8(v: u16) ensures trunc8(v) as int == (v as int) % 256
{ assert(#[verifier::truncate] (v as u8) as int == (v as int) % 256) by (bit_vector); }

