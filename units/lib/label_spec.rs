pub assume_specification [std::string::String::insert] (s: &mut std::string::String, idx: usize, c: char)
    requires idx == 0,
    ensures final(s)@ == seq![c] + old(s)@;

// ISO 32000-1 12.4.2 / Table 159: A..Z for the first 26 pages, then AA..ZZ, then AAA..ZZZ, ...
pub open spec fn iso_letter(n: nat, upper: bool) -> char {
    (((if upper { 65int } else { 97int }) + ((n - 1) % 26)) as u8) as char
}
pub open spec fn iso_letters(n: nat, upper: bool) -> Seq<char> {
    if n == 0 { Seq::empty() } else { Seq::new(((n - 1) / 26 + 1) as nat, |i: int| iso_letter(n, upper)) }
}
// helper used only inside the proof of L0/L1 (the loop invariant); not part of any claimed postcondition
pub open spec fn bij26(n: nat, upper: bool) -> Seq<char> decreases n {
    if n == 0 { Seq::empty() } else { bij26(((n - 1) / 26) as nat, upper).push(iso_letter(n, upper)) }
}
