//! C12 stand-in `fontsubset`: generator of synthetic TrueType fonts + an independent mini glyf reader. The generator and reader come from
//! the demonstration an independent sub-agent wrote for seed C12-1 (it saw only the property text); the instruction programs of odd
//! length were added here.
//!
//! Builds a synthetic TrueType font (glyf/loca, short or long loca) in memory, subsets it
//! through the public `subset_font` API and compares, with an independent mini glyf parser,
//! the flattened outline and the advance width of every requested character in the
//! original and in the subset.

use oxidize_pdf::text::fonts::truetype_subsetter::subset_font;
use std::collections::{HashMap, HashSet};

const NUM_GLYPHS: u16 = 400;
const FIRST_CODE: u32 = 0x21; // code c -> gid c - 0x20

// ---------------------------------------------------------------- font builder

fn simple_glyph(gid: u16, instr: bool) -> Vec<u8> {
    // One triangle contour, coordinates depend on the gid so every glyph is distinct.
    let g = gid as i16;
    let pts: [(i16, i16); 3] = [(10 + g, 20), (300 + g, 40 + g), (150, 600 + g)];
    let mut d = Vec::new();
    d.extend_from_slice(&1i16.to_be_bytes());
    let xmin = pts.iter().map(|p| p.0).min().unwrap();
    let ymin = pts.iter().map(|p| p.1).min().unwrap();
    let xmax = pts.iter().map(|p| p.0).max().unwrap();
    let ymax = pts.iter().map(|p| p.1).max().unwrap();
    for v in [xmin, ymin, xmax, ymax] {
        d.extend_from_slice(&v.to_be_bytes());
    }
    d.extend_from_slice(&2u16.to_be_bytes()); // endPtsOfContours[0]
    // instructionLength + program: every third glyph carries a 3-byte (odd) program when `instr` is set
    if instr && gid % 3 == 0 { d.extend_from_slice(&3u16.to_be_bytes()); d.extend_from_slice(&[0xB0, 0x01, 0x2B]); } else { d.extend_from_slice(&0u16.to_be_bytes()); }
    d.extend_from_slice(&[0x01, 0x01, 0x01]); // on-curve, 16-bit deltas
    let mut prev = 0i16;
    for p in pts {
        d.extend_from_slice(&(p.0 - prev).to_be_bytes());
        prev = p.0;
    }
    prev = 0;
    for p in pts {
        d.extend_from_slice(&(p.1 - prev).to_be_bytes());
        prev = p.1;
    }
    if d.len() % 2 == 1 {
        d.push(0);
    }
    d
}

fn composite_glyph(components: &[(u16, i16, i16)]) -> Vec<u8> {
    let mut d = Vec::new();
    d.extend_from_slice(&(-1i16).to_be_bytes());
    for v in [0i16, 0, 1000, 1000] {
        d.extend_from_slice(&v.to_be_bytes());
    }
    for (i, &(gid, dx, dy)) in components.iter().enumerate() {
        let mut flags: u16 = 0x0001 | 0x0002; // ARG_1_AND_2_ARE_WORDS | ARGS_ARE_XY_VALUES
        if i + 1 < components.len() {
            flags |= 0x0020; // MORE_COMPONENTS
        }
        d.extend_from_slice(&flags.to_be_bytes());
        d.extend_from_slice(&gid.to_be_bytes());
        d.extend_from_slice(&dx.to_be_bytes());
        d.extend_from_slice(&dy.to_be_bytes());
    }
    d
}

/// gid -> composite definition. gid 5 uses the last glyph of the font (an accent that was
/// appended at the end of the glyph order), gid 6 uses only "inner" glyphs, gid 7 nests gid 5.
fn composites() -> HashMap<u16, Vec<(u16, i16, i16)>> {
    let mut m = HashMap::new();
    m.insert(5u16, vec![(3u16, 0i16, 0i16), (NUM_GLYPHS - 1, 40, 250)]);
    m.insert(6u16, vec![(3, 0, 0), (4, 30, 200)]);
    m.insert(7u16, vec![(5, 0, 0), (NUM_GLYPHS - 2, 15, -120)]);
    m
}

fn build_font(long_loca: bool, instr: bool) -> Vec<u8> {
    let comps = composites();
    let mut glyf = Vec::new();
    let mut offsets: Vec<u32> = Vec::new();
    for gid in 0..NUM_GLYPHS {
        offsets.push(glyf.len() as u32);
        let g = match comps.get(&gid) {
            Some(c) => composite_glyph(c),
            None => simple_glyph(gid, instr),
        };
        glyf.extend_from_slice(&g);
    }
    offsets.push(glyf.len() as u32);

    let mut loca = Vec::new();
    for &o in &offsets {
        if long_loca {
            loca.extend_from_slice(&o.to_be_bytes());
        } else {
            assert!(o % 2 == 0 && o / 2 <= 0xFFFF);
            loca.extend_from_slice(&((o / 2) as u16).to_be_bytes());
        }
    }

    let mut head = vec![0u8; 54];
    head[0..4].copy_from_slice(&[0, 1, 0, 0]);
    head[12..16].copy_from_slice(&0x5F0F3CF5u32.to_be_bytes());
    head[18..20].copy_from_slice(&1000u16.to_be_bytes());
    head[50..52].copy_from_slice(&(long_loca as u16).to_be_bytes());

    let mut hhea = vec![0u8; 36];
    hhea[0..4].copy_from_slice(&[0, 1, 0, 0]);
    hhea[4..6].copy_from_slice(&800i16.to_be_bytes());
    hhea[6..8].copy_from_slice(&(-200i16).to_be_bytes());
    hhea[34..36].copy_from_slice(&NUM_GLYPHS.to_be_bytes());

    let mut hmtx = Vec::new();
    for gid in 0..NUM_GLYPHS {
        hmtx.extend_from_slice(&(500 + gid).to_be_bytes());
        hmtx.extend_from_slice(&10i16.to_be_bytes());
    }

    let mut maxp = vec![0u8; 32];
    maxp[0..4].copy_from_slice(&[0, 1, 0, 0]);
    maxp[4..6].copy_from_slice(&NUM_GLYPHS.to_be_bytes());

    // cmap: one format 4 subtable (3,1): codes 0x21.. -> gid 1..NUM_GLYPHS-1 via idDelta
    let last_code = FIRST_CODE + (NUM_GLYPHS as u32 - 2);
    let mut sub = Vec::new();
    sub.extend_from_slice(&4u16.to_be_bytes());
    sub.extend_from_slice(&32u16.to_be_bytes());
    sub.extend_from_slice(&0u16.to_be_bytes());
    sub.extend_from_slice(&4u16.to_be_bytes()); // segCountX2
    sub.extend_from_slice(&4u16.to_be_bytes());
    sub.extend_from_slice(&1u16.to_be_bytes());
    sub.extend_from_slice(&0u16.to_be_bytes());
    sub.extend_from_slice(&(last_code as u16).to_be_bytes());
    sub.extend_from_slice(&0xFFFFu16.to_be_bytes());
    sub.extend_from_slice(&0u16.to_be_bytes());
    sub.extend_from_slice(&(FIRST_CODE as u16).to_be_bytes());
    sub.extend_from_slice(&0xFFFFu16.to_be_bytes());
    sub.extend_from_slice(&(1i16 - FIRST_CODE as i16).to_be_bytes());
    sub.extend_from_slice(&1u16.to_be_bytes());
    sub.extend_from_slice(&0u16.to_be_bytes());
    sub.extend_from_slice(&0u16.to_be_bytes());
    let mut cmap = Vec::new();
    cmap.extend_from_slice(&0u16.to_be_bytes());
    cmap.extend_from_slice(&1u16.to_be_bytes());
    cmap.extend_from_slice(&3u16.to_be_bytes());
    cmap.extend_from_slice(&1u16.to_be_bytes());
    cmap.extend_from_slice(&12u32.to_be_bytes());
    cmap.extend_from_slice(&sub);

    // Padding table so that the file is above the 100 KB "always subset" threshold.
    let pad = vec![0u8; 120_000];

    let tables: Vec<(&[u8; 4], Vec<u8>)> = vec![
        (b"cmap", cmap),
        (b"glyf", glyf),
        (b"head", head),
        (b"hhea", hhea),
        (b"hmtx", hmtx),
        (b"loca", loca),
        (b"maxp", maxp),
        (b"zpad", pad),
    ];
    let n = tables.len();
    let mut out = Vec::new();
    out.extend_from_slice(&[0, 1, 0, 0]);
    out.extend_from_slice(&(n as u16).to_be_bytes());
    out.extend_from_slice(&[0, 0x80, 0, 3, 0, 0]);
    let off = 12 + 16 * n;
    let mut body = Vec::new();
    for (tag, data) in &tables {
        while (off + body.len()) % 4 != 0 {
            body.push(0);
        }
        out.extend_from_slice(*tag);
        out.extend_from_slice(&0u32.to_be_bytes());
        out.extend_from_slice(&((off + body.len()) as u32).to_be_bytes());
        out.extend_from_slice(&(data.len() as u32).to_be_bytes());
        body.extend_from_slice(data);
    }
    out.extend_from_slice(&body);
    out
}

// ------------------------------------------------- independent mini sfnt/glyf reader

struct Sfnt<'a> {
    data: &'a [u8],
    tables: HashMap<[u8; 4], (usize, usize)>,
}

fn be16(d: &[u8], o: usize) -> u16 {
    u16::from_be_bytes([d[o], d[o + 1]])
}
fn bei16(d: &[u8], o: usize) -> i16 {
    be16(d, o) as i16
}
fn be32(d: &[u8], o: usize) -> u32 {
    u32::from_be_bytes([d[o], d[o + 1], d[o + 2], d[o + 3]])
}

impl<'a> Sfnt<'a> {
    fn parse(data: &'a [u8]) -> Self {
        let n = be16(data, 4) as usize;
        let mut tables = HashMap::new();
        for i in 0..n {
            let b = 12 + 16 * i;
            let tag = [data[b], data[b + 1], data[b + 2], data[b + 3]];
            let off = be32(data, b + 8) as usize;
            let len = be32(data, b + 12) as usize;
            assert!(off + len <= data.len(), "table out of file");
            tables.insert(tag, (off, len));
        }
        Sfnt { data, tables }
    }
    fn table(&self, tag: &[u8; 4]) -> &'a [u8] {
        let (o, l) = self.tables[tag];
        &self.data[o..o + l]
    }
    fn num_glyphs(&self) -> u16 {
        be16(self.table(b"maxp"), 4)
    }
    fn glyph(&self, gid: u16) -> &'a [u8] {
        assert!(gid < self.num_glyphs(), "gid {} out of range", gid);
        let loca = self.table(b"loca");
        let long = be16(self.table(b"head"), 50) == 1;
        let (s, e) = if long {
            (
                be32(loca, gid as usize * 4) as usize,
                be32(loca, gid as usize * 4 + 4) as usize,
            )
        } else {
            (
                be16(loca, gid as usize * 2) as usize * 2,
                be16(loca, gid as usize * 2 + 2) as usize * 2,
            )
        };
        &self.table(b"glyf")[s..e]
    }
    fn advance(&self, gid: u16) -> u16 {
        let n = be16(self.table(b"hhea"), 34);
        let hmtx = self.table(b"hmtx");
        let idx = gid.min(n - 1) as usize;
        be16(hmtx, idx * 4)
    }
    /// Flattened outline: list of contours, each a list of (x, y, on_curve).
    fn flatten(&self, gid: u16, depth: u32) -> Vec<Vec<(i32, i32, bool)>> {
        assert!(depth < 8);
        let g = self.glyph(gid);
        if g.is_empty() {
            return Vec::new();
        }
        let nc = bei16(g, 0);
        if nc >= 0 {
            return parse_simple(g, nc as usize);
        }
        let mut out = Vec::new();
        let mut c = 10;
        loop {
            let flags = be16(g, c);
            let comp = be16(g, c + 2);
            c += 4;
            let (dx, dy) = if flags & 1 != 0 {
                let r = (bei16(g, c) as i32, bei16(g, c + 2) as i32);
                c += 4;
                r
            } else {
                let r = (g[c] as i8 as i32, g[c + 1] as i8 as i32);
                c += 2;
                r
            };
            assert!(flags & 0x0002 != 0, "demo font only uses XY offsets");
            assert!(flags & (0x8 | 0x40 | 0x80) == 0, "demo font has no scaled components");
            for contour in self.flatten(comp, depth + 1) {
                out.push(
                    contour
                        .into_iter()
                        .map(|(x, y, on)| (x + dx, y + dy, on))
                        .collect(),
                );
            }
            if flags & 0x20 == 0 {
                break;
            }
        }
        out
    }
}

fn parse_simple(g: &[u8], nc: usize) -> Vec<Vec<(i32, i32, bool)>> {
    let mut c = 10;
    let mut ends = Vec::new();
    for _ in 0..nc {
        ends.push(be16(g, c) as usize);
        c += 2;
    }
    let il = be16(g, c) as usize;
    c += 2 + il;
    let npts = ends.last().map(|e| e + 1).unwrap_or(0);
    let mut flags = Vec::new();
    while flags.len() < npts {
        let f = g[c];
        c += 1;
        flags.push(f);
        if f & 0x08 != 0 {
            let r = g[c];
            c += 1;
            for _ in 0..r {
                flags.push(f);
            }
        }
    }
    let mut xs = Vec::new();
    let mut v = 0i32;
    for &f in &flags {
        if f & 0x02 != 0 {
            let d = g[c] as i32;
            c += 1;
            v += if f & 0x10 != 0 { d } else { -d };
        } else if f & 0x10 == 0 {
            v += bei16(g, c) as i32;
            c += 2;
        }
        xs.push(v);
    }
    let mut ys = Vec::new();
    v = 0;
    for &f in &flags {
        if f & 0x04 != 0 {
            let d = g[c] as i32;
            c += 1;
            v += if f & 0x20 != 0 { d } else { -d };
        } else if f & 0x20 == 0 {
            v += bei16(g, c) as i32;
            c += 2;
        }
        ys.push(v);
    }
    let mut out = Vec::new();
    let mut start = 0;
    for e in ends {
        out.push(
            (start..=e)
                .map(|i| (xs[i], ys[i], flags[i] & 1 != 0))
                .collect(),
        );
        start = e + 1;
    }
    out
}

// ------------------------------------------------------------------- the check

fn ch(gid: u16) -> char {
    char::from_u32(FIRST_CODE + gid as u32 - 1).unwrap()
}

#[allow(dead_code)]
pub fn check(long_loca: bool, instr: bool, gids: &[u16]) {
    let font = build_font(long_loca, instr);
    assert!(font.len() > 100_000);
    let used: HashSet<char> = gids.iter().map(|&g| ch(g)).collect();
    let res = subset_font(font.clone(), &used).expect("subsetting must succeed");
    assert!(
        res.font_data.len() < font.len() / 2,
        "the font must really have been subsetted for this demo"
    );
    let orig = Sfnt::parse(&font);
    let sub = Sfnt::parse(&res.font_data);
    for &old_gid in gids {
        let c = ch(old_gid);
        let new_gid = *res
            .glyph_mapping
            .get(&(c as u32))
            .unwrap_or_else(|| panic!("requested char U+{:04X} missing from glyph map", c as u32));
        assert_eq!(
            orig.advance(old_gid),
            sub.advance(new_gid),
            "advance width of U+{:04X} changed",
            c as u32
        );
        let a = orig.flatten(old_gid, 0);
        let b = sub.flatten(new_gid, 0);
        assert!(!a.is_empty());
        assert_eq!(
            a, b,
            "flattened outline of U+{:04X} (gid {} -> {}) differs between original and subset",
            c as u32, old_gid, new_gid
        );
    }
}

pub const LAST_GID: u16 = NUM_GLYPHS - 1;
