//! Replay / stand-in driver: native evaluation of the REAL functions in /repo (normal build, overflow checks on).
//! Nothing here is a proof. Ec = complete finite domain, Eb = stated bounded domain. Output: one JSON object on stdout.
use oxidize_pdf::page_labels::PageLabelStyle;
use oxidize_pdf::parser::filters::{decode_stream, decode_stream_with_limit};
use oxidize_pdf::parser::objects::{PdfDictionary, PdfName, PdfObject};
use oxidize_pdf::parser::ParseOptions;
use oxidize_pdf::text::TextEncoding;
use std::panic;
mod fontsubset;

include!("/verif/hooks/specs_annexd.rs");

fn iso_letters(n: u32, upper: bool) -> String {
    if n == 0 { return String::new(); }
    let c = ((if upper { b'A' } else { b'a' }) + ((n - 1) % 26) as u8) as char;
    std::iter::repeat(c).take(((n - 1) / 26 + 1) as usize).collect()
}
fn bij26(mut n: u32, upper: bool) -> String {
    let mut s = String::new();
    while n > 0 { let r = ((n - 1) % 26) as u8; s.insert(0, ((if upper { b'A' } else { b'a' }) + r) as char); n = (n - 1) / 26; }
    s
}
fn js(s: &str) -> String { format!("{:?}", s) }

fn cmd_letters(max: u32) {
    let mut iso_ok = 0u32; let mut bij_only = 0u32; let mut other: Vec<String> = vec![]; let mut first_bij: Option<u32> = None;
    for upper in [true, false] {
        let style = if upper { PageLabelStyle::UppercaseLetters } else { PageLabelStyle::LowercaseLetters };
        for n in 0..=max {
            let r = style.format(n);
            if r == iso_letters(n, upper) { iso_ok += 1; }
            else if r == bij26(n, upper) { bij_only += 1; if first_bij.is_none() { first_bij = Some(n); } }
            else if other.len() < 5 { other.push(format!("{{\"n\":{},\"upper\":{},\"real\":{},\"iso\":{}}}", n, upper, js(&r), js(&iso_letters(n, upper)))); }
        }
    }
    println!("{{\"cmd\":\"letters\",\"max\":{},\"evaluated\":{},\"iso_ok\":{},\"bijective26_not_iso\":{},\"first_bijective26\":{},\"other\":[{}]}}",
        max, 2 * (max + 1), iso_ok, bij_only, first_bij.map(|x| x.to_string()).unwrap_or("null".into()), other.join(","));
}

fn roman_ref(mut n: u32, upper: bool) -> String {
    let t = [(1000, "m"), (900, "cm"), (500, "d"), (400, "cd"), (100, "c"), (90, "xc"), (50, "l"), (40, "xl"), (10, "x"), (9, "ix"), (5, "v"), (4, "iv"), (1, "i")];
    let mut s = String::new();
    for (v, r) in t { while n >= v { s.push_str(r); n -= v; } }
    if upper { s.to_uppercase() } else { s }
}
// C27 Eb: decimal / roman formatting against reference formatters, and the label dictionaries written by
// PageLabel::to_dict / PageLabelTree::to_dict read by an independent object-level reader (ISO 32000-1 12.4.2, Table 159)
fn cmd_labels(max: u32) {
    use oxidize_pdf::objects::Object;
    use oxidize_pdf::page_labels::{PageLabel, PageLabelTree};
    let mut evaluated = 0u64; let mut bad: Vec<String> = vec![];
    for n in 0..=max {
        evaluated += 3;
        for (style, want, nm) in [(PageLabelStyle::DecimalArabic, n.to_string(), "D"), (PageLabelStyle::LowercaseRoman, roman_ref(n, false), "r"), (PageLabelStyle::UppercaseRoman, roman_ref(n, true), "R")] {
            let got = style.format(n);
            if got != want && bad.len() < 6 { bad.push(format!("{{\"style\":\"{nm}\",\"n\":{n},\"real\":{},\"iso\":{}}}", js(&got), js(&want))); }
        }
    }
    // independent reader of a label dictionary: (style name, prefix, start)
    fn read_label(o: &Object) -> Option<(Option<String>, Option<String>, i64)> {
        let Object::Dictionary(d) = o else { return None };
        let s = match d.get("S") { Some(Object::Name(n)) => Some(n.clone()), None => None, _ => return None };
        let p = match d.get("P") { Some(Object::String(p)) => Some(p.clone()), None => None, _ => return None };
        let st = match d.get("St") { Some(Object::Integer(i)) => *i, None => 1, _ => return None };
        Some((s, p, st))
    }
    let styles = [(PageLabelStyle::DecimalArabic, Some("D")), (PageLabelStyle::UppercaseRoman, Some("R")), (PageLabelStyle::LowercaseRoman, Some("r")),
                  (PageLabelStyle::UppercaseLetters, Some("A")), (PageLabelStyle::LowercaseLetters, Some("a")), (PageLabelStyle::None, None)];
    let prefixes: [Option<&str>; 5] = [None, Some("A-"), Some("(A) "), Some("\\"), Some("\u{e9}")];
    let starts = [1u32, 5];
    let mut labels: Vec<(PageLabel, (Option<String>, Option<String>, i64))> = vec![];
    for (st, nm) in styles { for p in prefixes { for s0 in starts {
        let mut l = PageLabel::new(st).starting_at(s0);
        if let Some(p) = p { l = l.with_prefix(p); }
        labels.push((l, (nm.map(|x| x.to_string()), p.map(|x| x.to_string()), s0 as i64)));
    } } }
    // every pair of labels on pages (0, 3): includes identical adjacent ranges (restart of numbering)
    for (la, ea) in &labels { for (lb, eb) in &labels {
        evaluated += 1;
        let mut t = PageLabelTree::new();
        t.add_range(0, la.clone()); t.add_range(3, lb.clone());
        let d = t.to_dict();
        let ok = match d.get("Nums") {
            Some(Object::Array(v)) => v.len() == 4 && v[0] == Object::Integer(0) && v[2] == Object::Integer(3)
                && read_label(&v[1]).as_ref() == Some(ea) && read_label(&v[3]).as_ref() == Some(eb),
            _ => false,
        };
        if !ok && bad.len() < 6 { bad.push(format!("{{\"what\":\"label tree dictionary\",\"range0\":{:?},\"range3\":{:?},\"nums\":{}}}", js(&format!("{:?}", ea)), js(&format!("{:?}", eb)), js(&format!("{:?}", d.get("Nums"))))); }
    } }
    // histories on ONE tree: ranges added and labels looked up in any interleaving (a lookup must see every range added before it)
    {
        #[derive(Clone, Copy, Debug)] enum Op { Add(u32, u8), Get(u32) }
        let mut ops: Vec<Op> = vec![];
        for k in [0u32, 3, 5] { for st in 0..2u8 { ops.push(Op::Add(k, st)); } }
        for p in [0u32, 2, 4, 6] { ops.push(Op::Get(p)); }
        let hist_len = 4usize;
        for n in 0..ops.len().pow(hist_len as u32) {
            let mut m = n; let mut h = vec![]; for _ in 0..hist_len { h.push(ops[m % ops.len()]); m /= ops.len(); }
            evaluated += 1;
            let mut t = PageLabelTree::new(); let mut model: std::collections::BTreeMap<u32, (u8, u32)> = Default::default(); let mut ok = true; let mut note = String::new();
            for (i, op) in h.iter().enumerate() {
                match *op {
                    Op::Add(k, st) => { let style = if st == 0 { PageLabelStyle::DecimalArabic } else { PageLabelStyle::LowercaseRoman }; t.add_range(k, PageLabel::new(style).starting_at(1 + i as u32)); model.insert(k, (st, 1 + i as u32)); }
                    Op::Get(p) => {
                        let want = model.range(..=p).next_back().map(|(k, (st, start))| { let v = start + (p - k); if *st == 0 { v.to_string() } else { roman_ref(v, false) } });
                        let got = t.get_label(p);
                        if got != want { ok = false; note = format!("get_label({p}) = {:?}, expected {:?}", got, want); break; }
                    }
                }
            }
            if !ok && bad.len() < 6 { bad.push(format!("{{\"what\":\"history on one label tree\",\"history\":{},\"problem\":{}}}", js(&format!("{:?}", h)), js(&note))); }
        }
    }
    println!("{{\"cmd\":\"labels\",\"bound\":\"n in 0..={max} for decimal/roman; all ordered pairs of 60 label definitions (6 styles x 5 prefixes x 2 starts) at pages 0 and 3; all histories of 4 add_range/get_label operations on one tree\",\"evaluated\":{},\"disagreements\":[{}]}}", evaluated, bad.join(","));
}

fn annexd_free(_enc: &str, cp: u32) -> bool { cp < 0x20 || (0x7F..=0x9F).contains(&cp) || cp == 0xA0 || cp == 0xAD }
fn cmd_enc_tables() {
    // C25 Ec: TextEncoding::{encode_strict, encode, decode} on every one-character string / one-byte slice
    let mut evaluated = 0u64; let mut bad: Vec<String> = vec![]; let mut known: Vec<String> = vec![]; let mut silent_n = 0u64;
    for (enc, name, encf, decf) in [
        (TextEncoding::WinAnsiEncoding, "WinAnsi", annexd_win_encode as fn(u32) -> Expect, annexd_win_decode as fn(u8) -> Option<u32>),
        (TextEncoding::MacRomanEncoding, "MacRoman", annexd_mac_encode as fn(u32) -> Expect, annexd_mac_decode as fn(u8) -> Option<u32>),
    ] {
        for cp in 0u32..=0x10FFFF {
            let Some(c) = char::from_u32(cp) else { continue };
            let s = c.to_string();
            evaluated += 1;
            let strict = enc.encode_strict(&s);
            let lossy = enc.encode(&s);
            match encf(cp) {
                Expect::Must(b) => {
                    if strict != Ok(vec![b]) && bad.len() < 8 { bad.push(format!("{{\"enc\":\"{name}\",\"char\":{cp},\"fn\":\"encode_strict\",\"want\":{b},\"got\":{:?}}}", js(&format!("{:?}", strict)))); }
                    if lossy != vec![b] && bad.len() < 8 { bad.push(format!("{{\"enc\":\"{name}\",\"char\":{cp},\"fn\":\"encode\",\"want\":{b},\"got\":{:?}}}", js(&format!("{:?}", lossy)))); }
                }
                Expect::Absent => {
                    if strict.is_ok() && bad.len() < 8 { bad.push(format!("{{\"enc\":\"{name}\",\"char\":{cp},\"fn\":\"encode_strict\",\"want\":\"Err\",\"got\":{:?}}}", js(&format!("{:?}", strict)))); }
                    // lossy encode: must not silently produce a byte that decodes to a different character
                    if lossy.len() == 1 { if let Some(u) = decf(lossy[0]) { if u != cp { silent_n += 1; } if u != cp && known.len() < 3 { known.push(format!("{{\"enc\":\"{name}\",\"char\":{cp},\"silently_replaced_by\":{}}}", lossy[0])); } } }
                }
                Expect::Free => {}
            }
        }
        for b in 0u8..=255 {
            evaluated += 1;
            let d = enc.decode(&[b]);
            if let Some(u) = decf(b) {
                let want = char::from_u32(u).unwrap().to_string();
                if d != want && bad.len() < 8 { bad.push(format!("{{\"enc\":\"{name}\",\"byte\":{b},\"fn\":\"decode\",\"want\":{},\"got\":{}}}", js(&want), js(&d))); }
            }
        }
    }
    // PDFDocEncoding 0x80..=0x9E, 0xA0 (ISO 32000-1 Annex D.2): the code points a conforming implementation maps
    let pdfdoc: [(u8, u32); 32] = [(0x80,0x2022),(0x81,0x2020),(0x82,0x2021),(0x83,0x2026),(0x84,0x2014),(0x85,0x2013),(0x86,0x0192),(0x87,0x2044),
        (0x88,0x2039),(0x89,0x203A),(0x8A,0x2212),(0x8B,0x2030),(0x8C,0x201E),(0x8D,0x201C),(0x8E,0x201D),(0x8F,0x2018),(0x90,0x2019),(0x91,0x201A),
        (0x92,0x2122),(0x93,0xFB01),(0x94,0xFB02),(0x95,0x0141),(0x96,0x0152),(0x97,0x0160),(0x98,0x0178),(0x99,0x017D),(0x9A,0x0131),(0x9B,0x0142),
        (0x9C,0x0153),(0x9D,0x0161),(0x9E,0x017E),(0xA0,0x20AC)];
    let mut pdfdoc_bad: Vec<String> = vec![]; let mut pdfdoc_n = 0;
    for (b, u) in pdfdoc {
        evaluated += 2;
        let c = char::from_u32(u).unwrap();
        let e = TextEncoding::PdfDocEncoding.encode(&c.to_string());
        let d = TextEncoding::PdfDocEncoding.decode(&[b]);
        if e != vec![b] { pdfdoc_n += 1; if pdfdoc_bad.len() < 3 { pdfdoc_bad.push(format!("{{\"char\":{u},\"fn\":\"encode\",\"want\":{b},\"got\":{:?}}}", js(&format!("{:?}", e)))); } }
        if d != c.to_string() { pdfdoc_n += 1; if pdfdoc_bad.len() < 3 { pdfdoc_bad.push(format!("{{\"byte\":{b},\"fn\":\"decode\",\"want\":{},\"got\":{}}}", js(&c.to_string()), js(&d))); } }
    }
    // encode_strict for StandardEncoding / PDFDocEncoding over every scalar value: a byte that Annex D assigns to a DIFFERENT
    // character must never be returned (that is a silent replacement). The tree's known behaviour -- ASCII passes through, everything
    // else is refused -- is counted under the known PDFDoc/Standard finding; anything else is a disagreement.
    fn std_dec(b: u8) -> Option<u32> {
        Some(match b {
            0x27 => 0x2019, 0x60 => 0x2018, 0x20..=0x7E => b as u32,
            0xA1 => 0xA1, 0xA2 => 0xA2, 0xA3 => 0xA3, 0xA4 => 0x2044, 0xA5 => 0xA5, 0xA6 => 0x192, 0xA7 => 0xA7, 0xA8 => 0xA4, 0xA9 => 0x27, 0xAA => 0x201C, 0xAB => 0xAB,
            0xAC => 0x2039, 0xAD => 0x203A, 0xAE => 0xFB01, 0xAF => 0xFB02, 0xB1 => 0x2013, 0xB2 => 0x2020, 0xB3 => 0x2021, 0xB4 => 0xB7, 0xB6 => 0xB6, 0xB7 => 0x2022,
            0xB8 => 0x201A, 0xB9 => 0x201E, 0xBA => 0x201D, 0xBB => 0xBB, 0xBC => 0x2026, 0xBD => 0x2030, 0xBF => 0xBF, 0xC1 => 0x60, 0xC2 => 0xB4, 0xC3 => 0x2C6,
            0xC4 => 0x2DC, 0xC5 => 0xAF, 0xC6 => 0x2D8, 0xC7 => 0x2D9, 0xC8 => 0xA8, 0xCA => 0x2DA, 0xCB => 0xB8, 0xCD => 0x2DD, 0xCE => 0x2DB, 0xCF => 0x2C7, 0xD0 => 0x2014,
            0xE1 => 0xC6, 0xE3 => 0xAA, 0xE8 => 0x141, 0xE9 => 0xD8, 0xEA => 0x152, 0xEB => 0xBA, 0xF1 => 0xE6, 0xF5 => 0x131, 0xF8 => 0x142, 0xF9 => 0xF8, 0xFA => 0x153, 0xFB => 0xDF,
            _ => return None,
        })
    }
    let pdfdoc_dec = |b: u8| -> Option<u32> { match b { 0x20..=0x7E => Some(b as u32), 0xAD => None, 0xA1..=0xFF => Some(b as u32), _ => pdfdoc.iter().find(|x| x.0 == b).map(|x| x.1) } };
    for (enc, name) in [(TextEncoding::StandardEncoding, "Standard"), (TextEncoding::PdfDocEncoding, "PDFDoc")] {
        for cp in 0u32..=0x10FFFF {
            let Some(c) = char::from_u32(cp) else { continue };
            evaluated += 1;
            let dec = |b: u8| if name == "Standard" { std_dec(b) } else { pdfdoc_dec(b) };
            match enc.encode_strict(&c.to_string()) {
                Ok(v) if v.len() == 1 => {
                    let b = v[0];
                    if dec(b) == Some(cp) { continue; }
                    if cp < 0x80 && b as u32 == cp { pdfdoc_n += 1; continue; }      // known: ASCII pass-through (e.g. Standard 0x27 is quoteright)
                    if bad.len() < 8 { bad.push(format!("{{\"enc\":\"{name}\",\"char\":{cp},\"fn\":\"encode_strict\",\"returned_byte\":{b},\"annex_d_character_of_that_byte\":{}}}", js(&format!("{:?}", dec(b).and_then(char::from_u32))))); } else { bad.push(String::new()); }
                }
                Ok(v) => { if bad.len() < 8 { bad.push(format!("{{\"enc\":\"{name}\",\"char\":{cp},\"fn\":\"encode_strict\",\"returned\":{:?}}}", v)); } else { bad.push(String::new()); } }
                Err(_) => { if (0u16..=255).any(|b| dec(b as u8) == Some(cp)) { pdfdoc_n += 1; } }   // known: non-ASCII refused although Annex D has a code
            }
        }
    }
    // mutual inverse on the repertoire: whatever encode_strict accepts must decode back to the same character, and no two
    // characters may share a code
    for (enc, name) in [(TextEncoding::WinAnsiEncoding, "WinAnsi"), (TextEncoding::MacRomanEncoding, "MacRoman")] {
        let mut owner: [Option<u32>; 256] = [None; 256];
        for cp in 0u32..=0x10FFFF {
            let Some(c) = char::from_u32(cp) else { continue };
            if let Ok(v) = enc.encode_strict(&c.to_string()) {
                evaluated += 1;
                if v.len() != 1 { continue; }
                let b = v[0];
                let back = enc.decode(&[b]);
                if back != c.to_string() && annexd_free(name, cp) == false { if bad.len() < 8 { bad.push(format!("{{\"enc\":\"{name}\",\"char\":{cp},\"encodes_to\":{b},\"which_decodes_to\":{}}}", js(&back))); } else { bad.push(String::new()); } }
                if let Some(o) = owner[b as usize] { if o != cp { if bad.len() < 8 { bad.push(format!("{{\"enc\":\"{name}\",\"byte\":{b},\"shared_by_characters\":[{o},{cp}]}}")); } else { bad.push(String::new()); } } }
                owner[b as usize] = Some(cp);
            }
        }
    }
    let nbad_total = bad.len(); bad.retain(|b| !b.is_empty());
    let _ = nbad_total;
    println!("{{\"cmd\":\"enc-tables\",\"evaluated\":{},\"disagreements\":[{}],\"silent_replacement_count\":{},\"silent_replacement_examples\":[{}],\"pdfdoc_disagreement_count\":{},\"pdfdoc_examples\":[{}]}}", evaluated, bad.join(","), silent_n, known.join(","), pdfdoc_n, pdfdoc_bad.join(","));
}

fn dict_with_filter(name: &str) -> PdfDictionary {
    let mut d = PdfDictionary::new();
    d.insert("Filter".to_string(), PdfObject::Name(PdfName(name.to_string())));
    d
}

fn all_strings(alphabet: &[u8], max_len: usize, mut f: impl FnMut(&[u8])) {
    let mut buf: Vec<u8> = vec![];
    fn rec(alphabet: &[u8], max_len: usize, buf: &mut Vec<u8>, f: &mut dyn FnMut(&[u8])) {
        f(buf);
        if buf.len() == max_len { return; }
        for &a in alphabet { buf.push(a); rec(alphabet, max_len, buf, f); buf.pop(); }
    }
    rec(alphabet, max_len, &mut buf, &mut f);
}

fn cmd_a85hex(max_len: usize) {
    // C01/C08 Eb: no panic; with_limit(d, m) is Ok(v) => |v| <= m and v == unbounded result; Err => unbounded is Err or longer than m
    let alphabet: &[u8] = b"!uz~><0Fg \n\0";
    let opts = ParseOptions::default();
    let mut evaluated = 0u64; let mut bad: Vec<String> = vec![];
    for filter in ["ASCII85Decode", "ASCIIHexDecode"] {
        let dict = dict_with_filter(filter);
        all_strings(alphabet, max_len, |d| {
            evaluated += 1;
            let dd = d.to_vec();
            let full = panic::catch_unwind(|| decode_stream(&dd, &dict, &opts));
            let full = match full { Ok(r) => r, Err(_) => { if bad.len() < 8 { bad.push(format!("{{\"filter\":\"{filter}\",\"input\":{:?},\"what\":\"panic in unbounded decode\"}}", dd)); } return; } };
            for m in 0..=8usize {
                let lim = panic::catch_unwind(|| decode_stream_with_limit(&dd, &dict, &opts, m));
                match lim {
                    Err(_) => { if bad.len() < 8 { bad.push(format!("{{\"filter\":\"{filter}\",\"input\":{:?},\"max\":{m},\"what\":\"panic in bounded decode\"}}", dd)); } }
                    Ok(Ok(v)) => {
                        let okv = v.len() <= m && matches!(&full, Ok(f) if *f == v);
                        if !okv && bad.len() < 8 { bad.push(format!("{{\"filter\":\"{filter}\",\"input\":{:?},\"max\":{m},\"what\":\"bounded Ok disagrees with unbounded or exceeds limit\"}}", dd)); }
                    }
                    Ok(Err(_)) => {
                        if let Ok(f) = &full { if f.len() <= m && bad.len() < 8 { bad.push(format!("{{\"filter\":\"{filter}\",\"input\":{:?},\"max\":{m},\"what\":\"bounded Err although result fits\"}}", dd)); } }
                    }
                }
            }
        });
    }
    println!("{{\"cmd\":\"a85hex\",\"bound\":\"all inputs of length <= {max_len} over the 12-byte alphabet ! u z ~ > < 0 F g SP LF NUL, max in 0..=8\",\"evaluated\":{},\"disagreements\":[{}]}}", evaluated, bad.join(","));
}

fn a85_encode_ref(x: &[u8]) -> Vec<u8> {
    // ISO 32000-1 7.4.3 reference encoder (no 'z' shortcut), terminated by ~>
    let mut out = vec![];
    for chunk in x.chunks(4) {
        let mut v: u32 = 0;
        for i in 0..4 { v = v << 8 | (*chunk.get(i).unwrap_or(&0) as u32); }
        let mut digits = [0u8; 5];
        for i in (0..5).rev() { digits[i] = (v % 85) as u8 + b'!'; v /= 85; }
        out.extend_from_slice(&digits[..chunk.len() + 1]);
    }
    out.extend_from_slice(b"~>");
    out
}
fn hex_encode_ref(x: &[u8]) -> Vec<u8> { let mut o: Vec<u8> = x.iter().flat_map(|b| format!("{b:02X}").into_bytes()).collect(); o.push(b'>'); o }

fn cmd_a85hex_roundtrip(max_len: usize) {
    // C07 Eb: decode(encode_ref(x)) == x, also with white space inserted at every position
    let alphabet: &[u8] = &[0x00, 0x01, 0x7F, 0x80, 0xFF, 0x20];
    let opts = ParseOptions::default();
    let mut evaluated = 0u64; let mut bad: Vec<String> = vec![];
    all_strings(alphabet, max_len, |x| {
        for (filter, enc) in [("ASCII85Decode", a85_encode_ref(x)), ("ASCIIHexDecode", hex_encode_ref(x))] {
            let dict = dict_with_filter(filter);
            let mut variants = vec![enc.clone()];
            for p in 0..=enc.len().saturating_sub(2) { let mut v = enc.clone(); v.insert(p, b'\n'); variants.push(v); }
            for v in variants {
                evaluated += 1;
                let r = panic::catch_unwind(|| decode_stream(&v, &dict, &opts));
                let ok = matches!(&r, Ok(Ok(d)) if d.as_slice() == x);
                if !ok && bad.len() < 8 { bad.push(format!("{{\"filter\":\"{filter}\",\"plain\":{:?},\"encoded\":{:?},\"got\":{:?}}}", x, v, js(&format!("{:?}", r.map_err(|_| "panic"))))); }
            }
        }
    });
    println!("{{\"cmd\":\"a85hex-roundtrip\",\"bound\":\"all plaintexts of length <= {max_len} over {{00,01,7F,80,FF,20}}, each encoding also with LF inserted at every position\",\"evaluated\":{},\"disagreements\":[{}]}}", evaluated, bad.join(","));
}

// C07 Eb: decode(reference_encode(x)) == x for the filters whose encoders are independent crates (LZW: weezl, Flate: flate2),
// alone and chained, with PNG predictors 10..15 and the TIFF predictor 2 applied by reference encoders written from the PNG
// specification (9.2-9.4) and TIFF 6.0 section 14. Payloads are deterministic pseudo-random bytes of several sizes and entropies
// (the large high-entropy ones make the LZW encoder fill and reset its table).
fn prng_bytes(seed: u32, n: usize, alphabet: u32) -> Vec<u8> {
    let mut x = seed.wrapping_mul(2654435761).wrapping_add(12345); let mut out = Vec::with_capacity(n);
    for _ in 0..n { x ^= x << 13; x ^= x >> 17; x ^= x << 5; out.push(((x >> 8) % alphabet) as u8); }
    out
}
// PNG filtering of raw rows (encoder side): ft per row cycles through `types`
fn png_filter_ref(raw: &[u8], row_bytes: usize, bpp: usize, types: &[u8]) -> Vec<u8> {
    let mut out = vec![]; let zero = vec![0u8; row_bytes];
    for (r, row) in raw.chunks(row_bytes).enumerate() {
        let prior: &[u8] = if r == 0 { &zero } else { &raw[(r - 1) * row_bytes..r * row_bytes] };
        let ft = types[r % types.len()]; out.push(ft);
        for i in 0..row.len() {
            let a = if i >= bpp { row[i - bpp] } else { 0 }; let b = prior[i]; let c = if i >= bpp { prior[i - bpp] } else { 0 };
            out.push(match ft { 0 => row[i], 1 => row[i].wrapping_sub(a), 2 => row[i].wrapping_sub(b),
                3 => row[i].wrapping_sub(((a as u16 + b as u16) / 2) as u8), _ => row[i].wrapping_sub(paeth_ref(a, b, c)) });
        }
    }
    out
}
// TIFF predictor 2 (horizontal differencing), encoder side, for 8-bit components
fn tiff2_ref(raw: &[u8], row_bytes: usize, colors: usize) -> Vec<u8> {
    let mut out = raw.to_vec();
    for r in 0..raw.len() / row_bytes { for i in (colors..row_bytes).rev() { out[r * row_bytes + i] = raw[r * row_bytes + i].wrapping_sub(raw[r * row_bytes + i - colors]); } }
    out
}
fn cmd_filters_roundtrip(big: usize) {
    use std::io::Write;
    let opts = ParseOptions::default();
    let mut evaluated = 0u64; let mut bad: Vec<String> = vec![]; let mut nbad = 0u64; let mut tiff_total = 0u64; let mut tiff_wrong = 0u64; let mut tiff_ex: Vec<String> = vec![];
    let lzw = |x: &[u8], early: bool| -> Vec<u8> {
        let mut e = if early { weezl::encode::Encoder::with_tiff_size_switch(weezl::BitOrder::Msb, 8) } else { weezl::encode::Encoder::new(weezl::BitOrder::Msb, 8) };
        e.encode(x).unwrap()
    };
    let flate = |x: &[u8]| -> Vec<u8> { let mut e = flate2::write::ZlibEncoder::new(Vec::new(), flate2::Compression::default()); e.write_all(x).unwrap(); e.finish().unwrap() };
    let name = |s: &str| PdfObject::Name(PdfName(s.to_string()));
    let mut check = |what: String, dict: &PdfDictionary, enc: &[u8], plain: &[u8], tiff: bool, evaluated: &mut u64| {
        *evaluated += 1;
        let r = panic::catch_unwind(|| decode_stream(enc, dict, &opts));
        let ok = matches!(&r, Ok(Ok(d)) if d.as_slice() == plain);
        let r2 = panic::catch_unwind(|| decode_stream_with_limit(enc, dict, &opts, plain.len().max(1) * 2 + 64));
        let ok2 = matches!(&r2, Ok(Ok(d)) if d.as_slice() == plain);
        if tiff { tiff_total += 1; if !(ok && ok2) { tiff_wrong += 1; if tiff_ex.len() < 2 { tiff_ex.push(format!("{{\"case\":{}}}", js(&what))); } } return; }
        if !(ok && ok2) { nbad += 1; if bad.len() < 6 {
            let short = |r: &std::thread::Result<Result<Vec<u8>, oxidize_pdf::parser::ParseError>>| match r { Ok(Ok(d)) => format!("Ok({} bytes, first difference at {:?})", d.len(), d.iter().zip(plain.iter()).position(|(a, b)| a != b)), Ok(Err(e)) => format!("Err({e})"), Err(_) => "PANIC".to_string() };
            bad.push(format!("{{\"case\":{},\"plain_len\":{},\"decode\":{},\"decode_with_limit\":{}}}", js(&what), plain.len(), js(&short(&r)), js(&short(&r2)))); } }
    };
    let sizes = [0usize, 1, 2, 3, 255, 256, 257, 1000, 4097, big];
    for (si, &n) in sizes.iter().enumerate() { for alpha in [2u32, 16, 256] {
        let x = prng_bytes(si as u32 * 7 + alpha, n, alpha);
        for early in [true, false] {
            let mut d = dict_with_filter("LZWDecode");
            if !early { let mut p = PdfDictionary::new(); p.insert("EarlyChange".to_string(), PdfObject::Integer(0)); d.insert("DecodeParms".to_string(), PdfObject::Dictionary(p)); }
            check(format!("LZW early={early} n={n} alphabet={alpha}"), &d, &lzw(&x, early), &x, false, &mut evaluated);
        }
        check(format!("Flate n={n} alphabet={alpha}"), &dict_with_filter("FlateDecode"), &flate(&x), &x, false, &mut evaluated);
        // chain: ASCIIHex of LZW
        let mut d = PdfDictionary::new();
        d.insert("Filter".to_string(), PdfObject::Array(oxidize_pdf::parser::objects::PdfArray(vec![name("ASCIIHexDecode"), name("LZWDecode")])));
        if n <= 1000 { check(format!("[ASCIIHex LZW] n={n} alphabet={alpha}"), &d, &hex_encode_ref(&lzw(&x, true)), &x, false, &mut evaluated); }
    } }
    // predictors: Colors x BitsPerComponent x Columns, 5 rows, filter types cycling
    for colors in [1usize, 2, 3, 4] { for bpc in [1usize, 2, 4, 8, 16] { for columns in [1usize, 2, 5, 17] {
        let row_bytes = (columns * colors * bpc + 7) / 8; let bpp = ((colors * bpc + 7) / 8).max(1);
        let raw = prng_bytes((colors * 100 + bpc * 10 + columns) as u32, row_bytes * 5, 256);
        for (outer, is_lzw) in [("FlateDecode", false), ("LZWDecode", true)] {
            for (pred, types) in [(10i64, vec![0u8]), (11, vec![1]), (12, vec![2]), (13, vec![3]), (14, vec![4]), (15, vec![4, 1, 3, 2, 0])] {
                let filtered = png_filter_ref(&raw, row_bytes, bpp, &types);
                let enc = if is_lzw { lzw(&filtered, true) } else { flate(&filtered) };
                let mut d = dict_with_filter(outer); let mut p = PdfDictionary::new();
                for (k, v) in [("Predictor", pred), ("Colors", colors as i64), ("BitsPerComponent", bpc as i64), ("Columns", columns as i64)] { p.insert(k.to_string(), PdfObject::Integer(v)); }
                d.insert("DecodeParms".to_string(), PdfObject::Dictionary(p));
                check(format!("{outer} Predictor {pred} Colors {colors} BPC {bpc} Columns {columns}"), &d, &enc, &raw, false, &mut evaluated);
            }
            if bpc == 8 {
                let enc0 = tiff2_ref(&raw, row_bytes, colors);
                let enc = if is_lzw { lzw(&enc0, true) } else { flate(&enc0) };
                let mut d = dict_with_filter(outer); let mut p = PdfDictionary::new();
                for (k, v) in [("Predictor", 2i64), ("Colors", colors as i64), ("BitsPerComponent", 8), ("Columns", columns as i64)] { p.insert(k.to_string(), PdfObject::Integer(v)); }
                d.insert("DecodeParms".to_string(), PdfObject::Dictionary(p));
                check(format!("{outer} Predictor 2 (TIFF) Colors {colors} Columns {columns}"), &d, &enc, &raw, true, &mut evaluated);
            }
        }
    } } }
    println!("{{\"cmd\":\"filters-roundtrip\",\"bound\":\"LZW (weezl, both EarlyChange) / Flate (flate2) on pseudo-random payloads of 0..{big} bytes over 2/16/256-symbol alphabets; PNG predictors 10-15 and TIFF predictor 2 over Colors 1-4 x BPC 1,2,4,8,16 x Columns 1,2,5,17\",\"evaluated\":{},\"disagreement_count\":{},\"disagreements\":[{}],\"tiff_total\":{},\"tiff_wrong\":{},\"tiff_examples\":[{}]}}", evaluated, nbad, bad.join(","), tiff_total, tiff_wrong, tiff_ex.join(","));
}

// C17 Eb: histories of incremental text-note edits. (1) every history of <= len edits over {add, update an existing note, remove
// an existing note}: each output begins with the previous file's bytes, and the notes listed afterwards are exactly the model's
// (latest contents, removed notes gone). (2) contents: every single code point U+0020..U+02FF (alone and after "A"), a few beyond
// the BMP, and the byte-order-mark look-alikes, added and read back.
fn cmd_notes_history(len: usize) {
    use oxidize_pdf::geometry::Point;
    use oxidize_pdf::writer::{IncrementalTextNoteEditor, TextNoteId, TextNoteMutation};
    fn base_pdf() -> Vec<u8> {
        let objects: Vec<(u32, &[u8])> = vec![(1, b"<< /Type /Catalog /Pages 2 0 R >>"), (2, b"<< /Type /Pages /Kids [3 0 R] /Count 1 >>"),
            (3, b"<< /Type /Page /Parent 2 0 R /MediaBox [0 0 300 300] /Annots [4 0 R] >>"), (4, b"<< /Type /Annot /Subtype /Text /Rect [10 20 30 40] /Contents (old) >>")];
        let mut out = b"%PDF-1.7\n".to_vec(); let mut offsets = vec![0usize; 5];
        for (num, body) in &objects { offsets[*num as usize] = out.len(); out.extend_from_slice(format!("{num} 0 obj\n").as_bytes()); out.extend_from_slice(body); out.extend_from_slice(b"\nendobj\n"); }
        let xref = out.len(); out.extend_from_slice(b"xref\n0 5\n0000000000 65535 f \n");
        for o in offsets.iter().skip(1) { out.extend_from_slice(format!("{o:010} 00000 n \n").as_bytes()); }
        out.extend_from_slice(format!("trailer\n<< /Size 5 /Root 1 0 R >>\nstartxref\n{xref}\n%%EOF\n").as_bytes());
        out
    }
    let base = base_pdf();
    let mut evaluated = 0u64; let mut bad: Vec<String> = vec![]; let mut nbad = 0u64;
    // ---- (1) histories. op 0 = add, 1 = update the oldest live note, 2 = update the newest live note, 3 = remove the oldest live note
    let nops = 4usize;
    for l in 1..=len { for n in 0..nops.pow(l as u32) {
        let mut ops = vec![]; let mut m = n; for _ in 0..l { ops.push(m % nops); m /= nops; }
        evaluated += 1;
        let r = panic::catch_unwind(|| -> Result<(), String> {
            let mut pdf = base.clone();
            let mut model: Vec<(TextNoteId, String)> = vec![(TextNoteId { object_number: 4, generation_number: 0 }, "old".to_string())];
            for (step, op) in ops.iter().enumerate() {
                let text = format!("v{step}");
                let mutation = match *op {
                    0 => TextNoteMutation::Add { page_index: 0, position: Point::new(50.0 + step as f64, 60.0), contents: text.clone() },
                    1 | 2 => { if model.is_empty() { return Ok(()); } let i = if *op == 1 { 0 } else { model.len() - 1 };
                               TextNoteMutation::Update { id: model[i].0, position: Point::new(70.0, 80.0 + step as f64), contents: text.clone() } }
                    _ => { if model.is_empty() { return Ok(()); } TextNoteMutation::Remove { id: model[0].0 } }
                };
                let upd = IncrementalTextNoteEditor::new(&pdf).apply(&[mutation.clone()]).map_err(|e| format!("step {step}: apply: {e}"))?;
                if !upd.pdf_bytes.starts_with(&pdf) { return Err(format!("step {step}: output does not begin with the previous file")); }
                match mutation {
                    TextNoteMutation::Add { .. } => model.push((upd.added_notes.first().ok_or("no added note id")?.id, text)),
                    TextNoteMutation::Update { id, .. } => { for e in model.iter_mut() { if e.0 == id { e.1 = text.clone(); } } }
                    TextNoteMutation::Remove { id } => model.retain(|e| e.0 != id),
                }
                pdf = upd.pdf_bytes;
                let mut listed: Vec<(TextNoteId, String)> = IncrementalTextNoteEditor::new(&pdf).notes().map_err(|e| format!("step {step}: notes: {e}"))?.into_iter().map(|n| (n.id, n.contents)).collect();
                listed.sort_by_key(|e| e.0.object_number); let mut want = model.clone(); want.sort_by_key(|e| e.0.object_number);
                if listed != want { return Err(format!("step {step}: listed {:?}, expected {:?}", listed, want)); }
            }
            Ok(())
        });
        let ok = matches!(&r, Ok(Ok(())));
        if !ok { nbad += 1; if bad.len() < 4 { bad.push(format!("{{\"history\":{:?},\"problem\":{}}}", ops, js(&match r { Ok(Err(e)) => e, _ => "PANIC".to_string() }))); } }
    } }
    // ---- (2) contents
    let mut texts: Vec<String> = vec![];
    for cp in 0x20u32..0x300 { if let Some(c) = char::from_u32(cp) { texts.push(c.to_string()); texts.push(format!("A{c}")); } }
    for t in ["\u{fe}\u{ff}AB", "\u{ff}\u{fe}AB", "\u{2713} done", "\u{1F600}", "\u{10FFFF}", "a\u{85}b", "(\\)"] { texts.push(t.to_string()); }
    for t in &texts {
        evaluated += 1;
        let r = panic::catch_unwind(|| -> Result<String, String> {
            let upd = IncrementalTextNoteEditor::new(&base).apply(&[TextNoteMutation::Add { page_index: 0, position: Point::new(100.0, 100.0), contents: t.clone() }]).map_err(|e| e.to_string())?;
            let id = upd.added_notes[0].id;
            IncrementalTextNoteEditor::new(&upd.pdf_bytes).notes().map_err(|e| e.to_string())?.into_iter().find(|n| n.id == id).map(|n| n.contents).ok_or("not listed".to_string())
        });
        // the API documents "non-empty note contents": a white-space-only text may be refused (an error, never a wrong value)
        let ok = matches!(&r, Ok(Ok(g)) if g == t) || (t.trim().is_empty() && matches!(&r, Ok(Err(_))));
        if !ok { nbad += 1; if bad.len() < 7 { bad.push(format!("{{\"contents\":{},\"read_back\":{}}}", js(&format!("{:?}", t)), js(&format!("{:?}", r.map_err(|_| "PANIC"))))); } }
    }
    println!("{{\"cmd\":\"notes-history\",\"bound\":\"all histories of <= {len} text-note edits (add / update oldest / update newest / remove oldest) on a one-note base file; contents: every code point U+0020..U+02FF alone and after 'A' plus 7 special strings\",\"evaluated\":{},\"disagreement_count\":{},\"disagreements\":[{}]}}", evaluated, nbad, bad.join(","));
}

// C03 / C05 Eb: every writer configuration (xref streams x object streams x stream compression) x every encryption strength
// (none, RC4-40, RC4-128, AES-128, AES-256) x passwords {short ASCII, empty user password}: the written file must open with the
// STRICT parser (no recovery), unlock with the user and with the owner password, refuse a wrong one, and give back the page
// text and the title.
fn cmd_writer_configs(full: bool) {
    use oxidize_pdf::document::{DocumentEncryption, EncryptionStrength};
    use oxidize_pdf::encryption::Permissions;
    use oxidize_pdf::parser::PdfReader;
    use oxidize_pdf::text::ExtractionOptions;
    use oxidize_pdf::writer::WriterConfig;
    const MARK: &str = "RoundTripMarker42";
    let mut evaluated = 0u64; let mut bad: Vec<String> = vec![]; let mut nbad = 0u64;
    let strengths: [(&str, Option<EncryptionStrength>); 5] = [("none", None), ("rc4-40", Some(EncryptionStrength::Rc4_40bit)), ("rc4-128", Some(EncryptionStrength::Rc4_128bit)), ("aes-128", Some(EncryptionStrength::Aes128)), ("aes-256", Some(EncryptionStrength::Aes256))];
    for xs in [false, true] { for os in [false, true] { for comp in [false, true] { for (sname, strength) in strengths { for (upw, opw) in [("u", "o"), ("", "owner")] {
        if strength.is_none() && upw.is_empty() { continue; }
        // quick tier: the object-stream configurations are slow to write and read in a debug build (seconds each), so only the
        // compressed ones are kept, with AES only for the all-streams configuration; the thorough tier runs everything
        if !full && (upw.is_empty() || (sname == "rc4-40" && os) || (sname == "aes-256" && !(xs && os && comp))
            || (os && !comp) || (os && sname == "aes-128" && !xs)) { continue; }
        evaluated += 1;
        let what = format!("xref_streams={xs} object_streams={os} compress={comp} encryption={sname} user_pw={upw:?}");
        let r = panic::catch_unwind(|| -> Result<(), String> {
            let mut doc = oxidize_pdf::Document::new();
            doc.set_title("Title T");
            let mut page = oxidize_pdf::Page::new(595.0, 842.0);
            page.text().set_font(oxidize_pdf::Font::Helvetica, 24.0).at(72.0, 760.0).write(MARK).map_err(|e| e.to_string())?;
            page.add_annotation(oxidize_pdf::annotations::TextAnnotation::new(oxidize_pdf::geometry::Point::new(100.0, 700.0)).with_contents("Note (contents)").to_annotation());
            doc.add_page(page);
            // restricted permission sets alternate with the full one (the key derivation depends on /P)
            let perms = if comp { Permissions::all() } else { Permissions::new() };
            if let Some(s) = strength { doc.set_encryption(DocumentEncryption::new(upw, opw, perms, s)); }
            let cfg = WriterConfig { use_xref_streams: xs, use_object_streams: os, pdf_version: if xs || os { "1.5".to_string() } else { "1.7".to_string() }, compress_streams: comp, incremental_update: false };
            let t0 = std::time::Instant::now();
            let bytes = doc.to_bytes_with_config(cfg).map_err(|e| format!("write: {e}"))?;
            if std::env::var("VERIF_TIMING").is_ok() { eprintln!("write {:?}", t0.elapsed()); }
            for (role, pw) in [("user", upw), ("owner", opw)] {
                let t1 = std::time::Instant::now();
                let mut reader = PdfReader::new_with_options(std::io::Cursor::new(bytes.clone()), ParseOptions::strict()).map_err(|e| format!("strict open: {e}"))?;
                if strength.is_some() {
                    if !reader.is_encrypted() { return Err("written with encryption but the reader does not see an encrypted file".to_string()); }
                    let wrong = reader.unlock_with_password("definitely-wrong").map_err(|e| format!("unlock(wrong): {e}"))?;
                    if wrong { return Err("a wrong password unlocked the file".to_string()); }
                    let okk = reader.unlock_with_password(pw).map_err(|e| format!("unlock({role}): {e}"))?;
                    if !okk { return Err(format!("the {role} password did not unlock the file")); }
                } else if role == "owner" { continue; }
                if std::env::var("VERIF_TIMING").is_ok() { eprintln!("  open+unlock {role} {:?}", t1.elapsed()); }
                let pdfdoc = reader.into_document();
                let n = pdfdoc.page_count().map_err(|e| format!("page_count: {e}"))?;
                if n != 1 { return Err(format!("page count {n}")); }
                let text = pdfdoc.extract_text_from_page_with_options(0, ExtractionOptions::default()).map_err(|e| format!("extract: {e}"))?.text;
                if !text.contains(MARK) { return Err(format!("[{role}] page text not recovered: {:?}", text.chars().take(40).collect::<String>())); }
                if std::env::var("VERIF_TIMING").is_ok() { eprintln!("  extract {role} {:?}", t1.elapsed()); }
                let annots = pdfdoc.get_page_annotations(0).map_err(|e| format!("annotations: {e}"))?;
                let contents: Vec<Vec<u8>> = annots.iter().filter_map(|a| a.get("Contents").and_then(|o| o.as_string()).map(|s| s.as_bytes().to_vec())).collect();
                if contents != vec![b"Note (contents)".to_vec()] { return Err(format!("[{role}] annotation /Contents read back as {:?}", contents)); }
                let md = pdfdoc.metadata().map_err(|e| format!("metadata: {e}"))?;
                if md.title.as_deref() != Some("Title T") { return Err(format!("[{role}] title read back as {:?}", md.title)); }
            }
            Ok(())
        });
        let ok = matches!(&r, Ok(Ok(())));
        if !ok { nbad += 1; if bad.len() < 80 { bad.push(format!("{{\"config\":{},\"problem\":{}}}", js(&what), js(&match r { Ok(Err(e)) => e, _ => "PANIC".to_string() }))); } }
    } } } } }
    println!("{{\"cmd\":\"writer-configs\",\"bound\":\"8 writer configurations x {} encryption strengths x {} password pairs, strict parser, both passwords\",\"evaluated\":{},\"disagreement_count\":{},\"disagreements\":[{}]}}", if full { "5" } else { "3 (+ AES-256 for one configuration)" }, if full { 2 } else { 1 }, evaluated, nbad, bad.join(","));
}

// C13 Eb: text drawn with an embedded TrueType font (the repository's Roboto fixture) through page.text() and page.graphics(),
// alone and together on one page, is extracted back by the library's extractor. The strings include consecutive code-point runs
// that cross a 256-code row (U+00F0..U+010F, U+04F0..U+050F), which the writer emits as bfrange entries that need a carry.
fn cmd_embedded_font() {
    use oxidize_pdf::parser::{PdfDocument, PdfReader};
    let font = match std::fs::read("/repo/test-pdfs/Roboto-Regular.ttf") { Ok(f) if f.len() > 100_000 => f, _ => { println!("{{\"cmd\":\"embedded-font\",\"evaluated\":0,\"disagreements\":[],\"note\":\"font fixture not available\"}}"); return; } };
    let run = |from: u32, to: u32| -> String { (from..=to).filter_map(char::from_u32).collect() };
    let strings: Vec<String> = vec!["Heading 2024".to_string(), "\u{41f}\u{440}\u{438}\u{432}\u{435}\u{442}, \u{43c}\u{438}\u{440}".to_string(),
        run(0xF0, 0x10F), run(0x4F0, 0x50F), "\u{ff}\u{100}".to_string(), "L'Ha\u{ff}-les-Roses, \u{100}da\u{17e}i".to_string(), run(0x21, 0x7E)];
    let mut evaluated = 0u64; let mut bad: Vec<String> = vec![];
    // (text-API string, graphics-API string)
    let mut cases: Vec<(Option<&String>, Option<&String>)> = vec![];
    for s in &strings { cases.push((Some(s), None)); cases.push((None, Some(s))); }
    for a in &strings { for b in &strings { if a != b { cases.push((Some(a), Some(b))); } } }
    for (t, g) in cases {
        evaluated += 1;
        let font = font.clone();
        let r = panic::catch_unwind(move || -> Result<String, String> {
            let mut doc = oxidize_pdf::Document::new();
            doc.add_font_from_bytes("Roboto", font).map_err(|e| e.to_string())?;
            let mut page = oxidize_pdf::Page::a4();
            if let Some(g) = g { page.graphics().set_font(oxidize_pdf::Font::Custom("Roboto".to_string()), 12.0).draw_text(g, 40.0, 640.0).map_err(|e| e.to_string())?; }
            if let Some(t) = t { page.text().set_font(oxidize_pdf::Font::Custom("Roboto".to_string()), 12.0).at(40.0, 720.0).write(t).map_err(|e| e.to_string())?; }
            doc.add_page(page);
            let pdf = doc.to_bytes().map_err(|e| e.to_string())?;
            let reader = PdfReader::new(std::io::Cursor::new(pdf)).map_err(|e| e.to_string())?;
            Ok(PdfDocument::new(reader).extract_text_from_page(0).map_err(|e| e.to_string())?.text)
        });
        let squash = |s: &str| -> String { s.chars().filter(|c| !c.is_whitespace()).collect() };
        let ok = match &r { Ok(Ok(text)) => { let x = squash(text); t.map(|s| x.contains(&squash(s))).unwrap_or(true) && g.map(|s| x.contains(&squash(s))).unwrap_or(true) } _ => false };
        if !ok && bad.len() < 6 { bad.push(format!("{{\"text_api\":{},\"graphics_api\":{},\"extracted\":{}}}", js(&format!("{:?}", t)), js(&format!("{:?}", g)), js(&format!("{:?}", r.map_err(|_| "PANIC")).chars().take(300).collect::<String>()))); }
        else if !ok { bad.push(String::new()); }
    }
    let n = bad.len(); bad.retain(|b| !b.is_empty());
    println!("{{\"cmd\":\"embedded-font\",\"bound\":\"7 strings (ASCII, Cyrillic, code-point runs crossing U+00FF/U+0100 and U+04FF/U+0500) x text API / graphics API / both on one page, Roboto fixture\",\"evaluated\":{},\"disagreement_count\":{},\"disagreements\":[{}]}}", evaluated, n, bad.join(","));
}

// C01 Eb: hostile inputs with boundary integers in the numeric slots that drive offsets, counts and allocations, plus a few
// structural traps (deep nesting, self-referencing /Prev and /Kids, empty lines after an xref table). Each case runs in a CHILD
// process (address-space cap 4 GiB, 20 s wall clock) under all five parsing presets and then navigates the document; the
// parent reports every child that panics, aborts (allocation failure, stack overflow), or does not finish.
fn hostile_cases() -> Vec<(String, Vec<u8>)> {
    fn classic(objs: &[(u32, String)], xref_override: Option<String>, trailer_extra: &str, tail: &str) -> Vec<u8> {
        let mut out = b"%PDF-1.7\n".to_vec(); let mut offs: Vec<(u32, usize)> = vec![];
        for (n, body) in objs { offs.push((*n, out.len())); out.extend_from_slice(format!("{n} 0 obj\n{body}\nendobj\n").as_bytes()); }
        let xref = out.len(); let size = objs.iter().map(|o| o.0).max().unwrap_or(0) + 1;
        match xref_override {
            Some(x) => out.extend_from_slice(x.as_bytes()),
            None => { out.extend_from_slice(format!("xref\n0 {size}\n0000000000 65535 f \n").as_bytes());
                      for n in 1..size { match offs.iter().find(|o| o.0 == n) { Some((_, o)) => out.extend_from_slice(format!("{o:010} 00000 n \n").as_bytes()), None => out.extend_from_slice(b"0000000000 00000 f \n") } } }
        }
        out.extend_from_slice(format!("trailer\n<< /Size {size} /Root 1 0 R {trailer_extra}>>\nstartxref\n{xref}\n%%EOF\n{tail}").as_bytes());
        out
    }
    let cat = |extra: &str| (1u32, format!("<< /Type /Catalog /Pages 2 0 R {extra}>>"));
    let pages = |extra: &str| (2u32, format!("<< /Type /Pages /Kids [3 0 R] /Count 1 {extra}>>"));
    let page = |extra: &str| (3u32, format!("<< /Type /Page /Parent 2 0 R /MediaBox [0 0 200 200] /Contents 4 0 R {extra}>>"));
    let content = |body: &str, dict: &str| (4u32, format!("<< /Length {} {dict}>>\nstream\n{body}\nendstream", body.len()));
    let base = |c: (u32, String)| vec![cat(""), pages(""), page(""), c];
    let ints = ["-1", "0", "2147483647", "2147483648", "4294967295", "4294967296", "9223372036854775807", "-9223372036854775808", "99999999999999999999999"];
    let mut cases: Vec<(String, Vec<u8>)> = vec![];
    cases.push(("valid baseline".into(), classic(&base(content("BT /F1 12 Tf (hi) Tj ET", "")), None, "", "")));
    for v in ints {
        cases.push((format!("stream /Length {v}"), classic(&[cat(""), pages(""), page(""), (4, format!("<< /Length {v} >>\nstream\nBT (x) Tj ET\nendstream"))], None, "", "")));
        cases.push((format!("/Pages /Count {v}"), classic(&[cat(""), (2, format!("<< /Type /Pages /Kids [3 0 R] /Count {v} >>")), page(""), content("q Q", "")], None, "", "")));
        cases.push((format!("/Rotate {v}"), classic(&[cat(""), pages(""), page(&format!("/Rotate {v} ")), content("q Q", "")], None, "", "")));
        cases.push((format!("trailer /Prev {v}"), classic(&base(content("q Q", "")), None, &format!("/Prev {v} "), "")));
        cases.push((format!("trailer /Size {v}"), { let mut f = classic(&base(content("q Q", "")), None, "", ""); let t = String::from_utf8_lossy(&f).replace("/Size 5", &format!("/Size {v}")); f = t.into_bytes(); f }));
        cases.push((format!("xref subsection start {v}"), classic(&base(content("q Q", "")), Some(format!("xref\n{v} 2\n0000000000 65535 f \n0000000009 00000 n \n")), "", "")));
        cases.push((format!("xref subsection count {v}"), classic(&base(content("q Q", "")), Some(format!("xref\n0 {v}\n0000000000 65535 f \n0000000009 00000 n \n")), "", "")));
        for key in ["Columns", "Colors", "BitsPerComponent", "Predictor", "EarlyChange"] {
            cases.push((format!("Flate /DecodeParms /{key} {v}"), classic(&base(content("x", &format!("/Filter /FlateDecode /DecodeParms << /Predictor 12 /{key} {v} >> "))), None, "", "")));
        }
        // cross-reference stream with the value in /Size, /Index and /W; object stream with it in /N and /First
        for (slot, dict) in [("Size", format!("/Size {v} /W [1 2 1] /Index [0 5]")), ("Index first", format!("/Size 6 /W [1 2 1] /Index [{v} 5]")), ("Index count", format!("/Size 6 /W [1 2 1] /Index [0 {v}]")),
                             ("W[0]", format!("/Size 6 /W [{v} 2 1]")), ("W[1]", format!("/Size 6 /W [1 {v} 1]")), ("W[2]", format!("/Size 6 /W [1 2 {v}]"))] {
            let mut out = b"%PDF-1.7\n".to_vec(); let mut offs = vec![];
            for (n, body) in [cat(""), pages(""), page(""), content("q Q", "")] { offs.push(out.len()); out.extend_from_slice(format!("{n} 0 obj\n{body}\nendobj\n").as_bytes()); }
            let xpos = out.len(); let mut data: Vec<u8> = vec![0, 0, 0, 255];
            for o in &offs { data.push(1); data.extend_from_slice(&(*o as u16).to_be_bytes()); data.push(0); }
            data.push(1); data.extend_from_slice(&(xpos as u16).to_be_bytes()); data.push(0);
            out.extend_from_slice(format!("5 0 obj\n<< /Type /XRef {dict} /Root 1 0 R /Length {} >>\nstream\n", data.len()).as_bytes());
            out.extend_from_slice(&data); out.extend_from_slice(format!("\nendstream\nendobj\nstartxref\n{xpos}\n%%EOF\n").as_bytes());
            cases.push((format!("xref stream {slot} = {v}"), out));
        }
        for (slot, dict, body) in [("N", format!("/N {v} /First 4"), "6 0 42 ".to_string()), ("First", format!("/N 1 /First {v}"), "6 0 42 ".to_string()), ("member offset", "/N 1 /First 20".to_string(), format!("6 {v}              42 "))] {
            let mut out = b"%PDF-1.7\n".to_vec(); let mut offs = vec![];
            for (n, b) in [cat("/Extra 6 0 R "), pages(""), page(""), content("q Q", ""), (5u32, format!("<< /Type /ObjStm {dict} /Length {} >>\nstream\n{body}\nendstream", body.len()))] { offs.push(out.len()); out.extend_from_slice(format!("{n} 0 obj\n{b}\nendobj\n").as_bytes()); }
            let xpos = out.len(); let mut data: Vec<u8> = vec![0, 0, 0, 255];
            for o in &offs { data.push(1); data.extend_from_slice(&(*o as u16).to_be_bytes()); data.push(0); }
            data.extend_from_slice(&[2, 0, 5, 0]);   // object 6: in object stream 5, index 0
            data.push(1); data.extend_from_slice(&(xpos as u16).to_be_bytes()); data.push(0);
            out.extend_from_slice(format!("7 0 obj\n<< /Type /XRef /Size 8 /W [1 2 1] /Root 1 0 R /Length {} >>\nstream\n", data.len()).as_bytes());
            out.extend_from_slice(&data); out.extend_from_slice(format!("\nendstream\nendobj\nstartxref\n{xpos}\n%%EOF\n").as_bytes());
            cases.push((format!("object stream {slot} = {v}"), out));
        }
    }
    // structural traps
    for depth in [1000usize, 100_000] {
        cases.push((format!("array nested {depth} deep in the catalog"), classic(&[cat(&format!("/Deep {}{} ", "[".repeat(depth), "]".repeat(depth))), pages(""), page(""), content("q Q", "")], None, "", "")));
        cases.push((format!("dictionary nested {depth} deep in the catalog"), classic(&[cat(&format!("/Deep {}{} ", "<</A ".repeat(depth), ">>".repeat(depth))), pages(""), page(""), content("q Q", "")], None, "", "")));
        cases.push((format!("content stream: {depth} nested q"), classic(&base(content(&"q ".repeat(depth), "")), None, "", "")));
        cases.push((format!("content stream: {depth} nested ["), classic(&base(content(&format!("{} TJ", "[".repeat(depth)), "")), None, "", "")));
        cases.push((format!("content stream: {depth} nested ("), classic(&base(content(&format!("BT {} Tj ET", "(".repeat(depth)), "")), None, "", "")));
        cases.push((format!("{depth} semicolons before the catalog dictionary"), classic(&[(1, format!("{} << /Type /Catalog /Pages 2 0 R >>", ";".repeat(depth))), pages(""), page(""), content("q Q", "")], None, "", "")));
    }
    cases.push(("100000 comment lines before the catalog dictionary".into(), classic(&[(1, format!("{}<< /Type /Catalog /Pages 2 0 R >>", "% c\n".repeat(100_000))), pages(""), page(""), content("q Q", "")], None, "", "")));
    cases.push(("page tree 3000 levels deep".into(), { let mut objs = vec![cat("")]; for n in 2..3002u32 { objs.push((n, format!("<< /Type /Pages /Kids [{} 0 R] /Count 1 >>", n + 1))); } objs.push((3002, "<< /Type /Page /Parent 3001 0 R /MediaBox [0 0 10 10] >>".into())); classic(&objs, None, "", "") }));
    cases.push(("reference chain 3000 long".into(), { let mut objs = vec![cat("/Chain 5 0 R "), pages(""), page(""), content("q Q", "")]; for n in 5..3005u32 { objs.push((n, format!("{} 0 R", n + 1))); } objs.push((3005, "42".into())); classic(&objs, None, "", "") }));
    cases.push(("xref table followed by empty lines at end of file".into(), { let mut f = classic(&base(content("q Q", "")), Some("xref\n0 5\n0000000000 65535 f \n\n\n\n".into()), "", ""); f.extend_from_slice(b"\n\n\n"); f }));
    cases.push(("file ends inside the xref table".into(), { let f = classic(&base(content("q Q", "")), None, "", ""); let k = f.windows(4).position(|w| w == b"xref").unwrap(); f[..k + 12].to_vec() }));
    cases.push(("/Kids refers to its own /Pages node".into(), classic(&[cat(""), (2, "<< /Type /Pages /Kids [2 0 R 3 0 R] /Count 2 >>".into()), page(""), content("q Q", "")], None, "", "")));
    cases.push(("/Parent chain cycle with inherited attributes".into(), classic(&[cat(""), (2, "<< /Type /Pages /Kids [3 0 R] /Count 1 /Parent 3 0 R >>".into()), (3, "<< /Type /Page /Parent 2 0 R /Contents 4 0 R >>".into()), content("q Q", "")], None, "", "")));
    cases.push(("/Length is an indirect reference to the stream itself".into(), classic(&[cat(""), pages(""), page(""), (4, "<< /Length 4 0 R >>\nstream\nq Q\nendstream".into())], None, "", "")));
    cases.push(("inline image with no data".into(), classic(&base(content("q BI /W 1 /H 1 /BPC 8 /CS /G ID EI Q", "")), None, "", "")));
    cases.push(("ASCII85 group above 2^32".into(), classic(&base(content("s8W-!s8W-!~>", "/Filter /ASCII85Decode ")), None, "", "")));
    cases.push(("RunLength run past the end".into(), classic(&base(content("\u{7f}ab", "/Filter /RunLengthDecode ")), None, "", "")));
    cases
}
fn cmd_hostile_case(i: usize) {
    // child: run one case under every preset; a panic is reported through the exit code, an abort through the signal
    use oxidize_pdf::parser::PdfReader;
    let cases = hostile_cases();
    let (name, data) = &cases[i];
    let presets = [("default", ParseOptions::default()), ("strict", ParseOptions::strict()), ("tolerant", ParseOptions::tolerant()), ("lenient", ParseOptions::lenient()), ("skip_errors", ParseOptions::skip_errors())];
    for (pname, opt) in presets {
        let data = data.clone(); let pn = pname.to_string();
        let r = panic::catch_unwind(move || {
            if let Ok(reader) = PdfReader::new_with_options(std::io::Cursor::new(data), opt) {
                let doc = reader.into_document();
                if let Ok(n) = doc.page_count() {
                    for p in 0..n.min(3) {
                        let _ = doc.get_page(p);
                        let _ = doc.extract_text_from_page(p);
                    }
                }
                let _ = doc.metadata();
            }
        });
        if r.is_err() { eprintln!("PANIC in case {:?} under preset {}", name, pn); std::process::exit(101); }
    }
}
fn cmd_hostile_inputs() {
    let cases = hostile_cases();
    let exe = std::env::current_exe().unwrap();
    let mut bad: Vec<String> = vec![]; let mut nbad = 0u64;
    let results: Vec<(usize, String)> = {
        let idx: Vec<usize> = (0..cases.len()).collect();
        let chunks: Vec<Vec<usize>> = idx.chunks((cases.len() + 7) / 8).map(|c| c.to_vec()).collect();
        let handles: Vec<_> = chunks.into_iter().map(|chunk| { let exe = exe.clone(); std::thread::spawn(move || {
            let mut out = vec![];
            for i in chunk {
                let start = std::time::Instant::now();
                let mut child = match std::process::Command::new("sh").arg("-c").arg(format!("ulimit -v 4194304; ulimit -c 0; exec {} hostile-case {}", exe.display(), i)).stdout(std::process::Stdio::null()).stderr(std::process::Stdio::null()).spawn() { Ok(c) => c, Err(e) => { out.push((i, format!("spawn failed: {e}"))); continue; } };
                let verdict = loop {
                    match child.try_wait() {
                        Ok(Some(st)) => { use std::os::unix::process::ExitStatusExt; break if st.success() { String::new() } else if let Some(sig) = st.signal() { format!("killed by signal {sig} (abort / stack overflow / allocation failure)") } else { format!("exit code {:?} (panic)", st.code()) }; }
                        Ok(None) => { if start.elapsed().as_secs() >= 20 { let _ = child.kill(); let _ = child.wait(); break "did not finish within 20 s".to_string(); } std::thread::sleep(std::time::Duration::from_millis(20)); }
                        Err(e) => break format!("wait failed: {e}"),
                    }
                };
                out.push((i, verdict));
            }
            out }) }).collect();
        handles.into_iter().flat_map(|h| h.join().unwrap()).collect()
    };
    for (i, v) in &results { if !v.is_empty() { nbad += 1; if bad.len() < 40 { bad.push(format!("{{\"case\":{},\"outcome\":{}}}", js(&cases[*i].0), js(v))); } } }
    println!("{{\"cmd\":\"hostile-inputs\",\"bound\":\"{} generated files (9 boundary integers in 27 numeric slots, 23 structural traps) x 5 presets, each in a child process capped at 4 GiB and 20 s\",\"evaluated\":{},\"disagreement_count\":{},\"disagreements\":[{}]}}", cases.len(), cases.len() * 5, nbad, bad.join(","));
}

// C18 Eb: page trees. Nodes: root /Pages 2, inner /Pages 5 and 7, leaves 3, 4, 6. Every assignment of kids lists (length <= 3, with
// repeats, shared nodes and back references) to the three /Pages nodes is written as a file; the reported page count and the
// object behind each index must be the document-order traversal in which a node reached again is skipped (first occurrence
// wins, so cycles end), and MediaBox / Rotate / CropBox must come from the nearest ancestor that sets them. Plus chains of
// 1..40 nested /Pages levels with the attributes set only at the top.
fn cmd_pagetree(maxlen: usize) {
    use oxidize_pdf::parser::PdfReader;
    let pages_nodes = [2u32, 5, 7]; let leaves = [3u32, 4, 6];
    let all: Vec<u32> = vec![3, 4, 6, 5, 7, 2];
    // kids lists up to maxlen over `all`
    let mut lists: Vec<Vec<u32>> = vec![vec![]];
    let mut cur: Vec<Vec<u32>> = vec![vec![]];
    for _ in 0..maxlen { let mut nxt = vec![]; for l in &cur { for x in &all { let mut y = l.clone(); y.push(*x); nxt.push(y); } } lists.extend(nxt.iter().cloned()); cur = nxt; }
    // attribute placement: where /MediaBox and /Rotate are set (bit 0: root, bit 1: node 5, bit 2: the leaf itself)
    let build = |kids: &[Vec<u32>; 3], attr: u8| -> Vec<u8> {
        let mut out = b"%PDF-1.7\n".to_vec(); let mut offs: Vec<(u32, usize)> = vec![];
        let mut obj = |n: u32, body: String, out: &mut Vec<u8>| { offs.push((n, out.len())); out.extend_from_slice(format!("{n} 0 obj\n{body}\nendobj\n").as_bytes()); };
        obj(1, "<< /Type /Catalog /Pages 2 0 R >>".into(), &mut out);
        for (i, n) in pages_nodes.iter().enumerate() {
            let k: Vec<String> = kids[i].iter().map(|x| format!("{x} 0 R")).collect();
            let a = match (*n, attr) { (2, a) if a & 1 != 0 => " /MediaBox [0 0 200 200] /Rotate 90", (5, a) if a & 2 != 0 => " /MediaBox [0 0 500 500] /Rotate 180", _ => "" };
            // /Parent = the first /Pages node that lists this one (the root when none does)
            let parent = if *n == 2 { String::new() } else { let p = pages_nodes.iter().enumerate().find(|(j, m)| **m != *n && kids[*j].contains(n)).map(|(_, m)| *m).unwrap_or(2); format!(" /Parent {p} 0 R") };
            obj(*n, format!("<< /Type /Pages /Kids [{}] /Count {}{parent}{a} >>", k.join(" "), kids[i].len()), &mut out);
        }
        for n in leaves {
            let a = if attr & 4 != 0 && n == 3 { " /MediaBox [0 0 300 300] /Rotate 270" } else { "" };
            let parent = if kids[1].contains(&n) { 5 } else if kids[2].contains(&n) { 7 } else { 2 };
            obj(n, format!("<< /Type /Page /Parent {parent} 0 R{a} >>"), &mut out);
        }
        offs.sort();
        let xref = out.len(); out.extend_from_slice(b"xref\n0 8\n0000000000 65535 f \n");
        for n in 1..8u32 { let o = offs.iter().find(|x| x.0 == n).unwrap().1; out.extend_from_slice(format!("{o:010} 00000 n \n").as_bytes()); }
        out.extend_from_slice(format!("trailer\n<< /Size 8 /Root 1 0 R >>\nstartxref\n{xref}\n%%EOF\n").as_bytes());
        out
    };
    // reference traversal: document order, a node reached again is skipped
    fn walk(n: u32, kids: &[Vec<u32>; 3], seen: &mut Vec<u32>, out: &mut Vec<u32>) {
        if seen.contains(&n) { return; } seen.push(n);
        match n { 2 => for k in kids[0].clone() { walk(k, kids, seen, out) }, 5 => for k in kids[1].clone() { walk(k, kids, seen, out) }, 7 => for k in kids[2].clone() { walk(k, kids, seen, out) }, leaf => out.push(leaf) }
    }
    let mut evaluated = 0u64; let mut bad: Vec<String> = vec![]; let mut nbad = 0u64;
    let mut check = |name: String, file: Vec<u8>, want: Vec<(u32, Option<[f64; 4]>, Option<i32>)>, evaluated: &mut u64| {
        *evaluated += 1;
        let r = panic::catch_unwind(move || -> Result<Vec<(u32, [f64; 4], i32)>, String> {
            let reader = PdfReader::new(std::io::Cursor::new(file)).map_err(|e| format!("open: {e}"))?;
            let doc = reader.into_document();
            let n = doc.page_count().map_err(|e| format!("page_count: {e}"))?;
            let mut got = vec![];
            for i in 0..n { let p = doc.get_page(i).map_err(|e| format!("get_page({i}): {e}"))?; got.push((p.obj_ref.0, p.media_box, p.rotation)); }
            Ok(got)
        });
        let ok = match &r { Ok(Ok(got)) => got.len() == want.len() && got.iter().zip(want.iter()).all(|(g, w)| g.0 == w.0 && w.1.map(|b| b == g.1).unwrap_or(true) && w.2.map(|x| x == g.2).unwrap_or(true)), _ => false };
        if !ok { nbad += 1; if bad.len() < 6 { bad.push(format!("{{\"tree\":{},\"expected\":{},\"got\":{}}}", js(&name), js(&format!("{:?}", want)), js(&format!("{:?}", r.map_err(|_| "PANIC")).chars().take(400).collect::<String>()))); } }
    };
    let mut cyc: Vec<(String, Vec<u8>, Vec<u32>)> = vec![];
    for k2 in &lists { if k2.is_empty() { continue; } for k5 in &lists { for k7 in &lists {
        // keep the enumeration small: inner nodes only matter when the root (or the other inner node) refers to them
        if !k2.contains(&5) && !(k7.contains(&5) && k2.contains(&7)) && !k5.is_empty() { continue; }
        if !k2.contains(&7) && !(k5.contains(&7) && k2.contains(&5)) && !k7.is_empty() { continue; }
        let kids = [k2.clone(), k5.clone(), k7.clone()];
        let mut seen = vec![]; let mut order = vec![]; walk(2, &kids, &mut seen, &mut order);
        if order.is_empty() { continue; }
        // a /Pages node that can reach itself makes the tree cyclic: the property then only asks for termination with an error or a
        // truncated list (checked below: no panic, no hang, no page twice, only pages of this tree); the exact order is required for
        // every acyclic graph, including shared and repeated kids
        let reach = |from: u32| -> Vec<u32> { let mut st = vec![from]; let mut r: Vec<u32> = vec![]; while let Some(n) = st.pop() { let ks: &Vec<u32> = match n { 2 => &kids[0], 5 => &kids[1], 7 => &kids[2], _ => continue }; for k in ks { if !r.contains(k) { r.push(*k); st.push(*k); } } } r };
        let cyclic = [2u32, 5, 7].iter().any(|n| seen.contains(n) && reach(*n).contains(n));
        if cyclic { cyc.push((format!("2:{:?} 5:{:?} 7:{:?}", k2, k5, k7), build(&kids, 0), order.clone())); continue; }
        check(format!("2:{:?} 5:{:?} 7:{:?}", k2, k5, k7), build(&kids, 0), order.iter().map(|n| (*n, None, None)).collect(), &mut evaluated);
    } } }
    let mut cyc_n = 0u64; let mut cyc_bad: Vec<String> = vec![];
    for (name, file, order) in cyc {
        evaluated += 1;
        let r = panic::catch_unwind(move || -> Result<Vec<u32>, String> {
            let reader = PdfReader::new(std::io::Cursor::new(file)).map_err(|e| format!("open: {e}"))?;
            let doc = reader.into_document();
            let n = match doc.page_count() { Ok(n) => n, Err(_) => return Ok(vec![]) };
            let mut got = vec![]; for i in 0..n { if let Ok(p) = doc.get_page(i) { got.push(p.obj_ref.0); } }
            Ok(got)
        });
        let ok = match &r { Ok(Ok(got)) => got.iter().all(|g| order.contains(g)) && (1..got.len()).all(|i| !got[..i].contains(&got[i])), Ok(Err(_)) => true, Err(_) => false };
        if !ok { cyc_n += 1; if cyc_bad.len() < 3 { cyc_bad.push(format!("{{\"cyclic_tree\":{},\"pages_of_the_tree\":{:?},\"got\":{}}}", js(&name), order, js(&format!("{:?}", r.map_err(|_| "PANIC"))))); } }
    }
    // inheritance on a fixed shape: 2 -> [3, 5], 5 -> [4, 7], 7 -> [6]; every combination of where the attributes are set
    for attr in 0u8..8 {
        let kids = [vec![3u32, 5], vec![4u32, 7], vec![6u32]];
        let letter = [0.0, 0.0, 612.0, 792.0];
        let root = if attr & 1 != 0 { Some(([0.0, 0.0, 200.0, 200.0], 90)) } else { None };
        let n5 = if attr & 2 != 0 { Some(([0.0, 0.0, 500.0, 500.0], 180)) } else { root };
        let p3 = if attr & 4 != 0 { Some(([0.0, 0.0, 300.0, 300.0], 270)) } else { root };
        let w = |x: Option<([f64; 4], i32)>| (Some(x.map(|v| v.0).unwrap_or(letter)), Some(x.map(|v| v.1).unwrap_or(0)));
        check(format!("inheritance, attributes set at mask {attr}"), build(&kids, attr), vec![(3, w(p3).0, w(p3).1), (4, w(n5).0, w(n5).1), (6, w(n5).0, w(n5).1)], &mut evaluated);
    }
    // chains: catalog -> /Pages (MediaBox, Rotate) -> /Pages -> ... (depth levels) -> /Page
    for depth in 1..=40u32 {
        let mut out = b"%PDF-1.7\n".to_vec(); let mut offs = vec![];
        let mut obj = |n: u32, body: String, out: &mut Vec<u8>| { offs.push(out.len()); out.extend_from_slice(format!("{n} 0 obj\n{body}\nendobj\n").as_bytes()); };
        obj(1, "<< /Type /Catalog /Pages 2 0 R >>".into(), &mut out);
        for l in 0..depth { let n = 2 + l; let extra = if l == 0 { " /MediaBox [0 0 300 400] /Rotate 180".to_string() } else { format!(" /Parent {} 0 R", n - 1) }; obj(n, format!("<< /Type /Pages /Kids [{} 0 R] /Count 1{extra} >>", n + 1), &mut out); }
        let leaf = 2 + depth; obj(leaf, format!("<< /Type /Page /Parent {} 0 R >>", leaf - 1), &mut out);
        let xref = out.len(); out.extend_from_slice(format!("xref\n0 {}\n0000000000 65535 f \n", leaf + 1).as_bytes());
        for o in &offs { out.extend_from_slice(format!("{o:010} 00000 n \n").as_bytes()); }
        out.extend_from_slice(format!("trailer\n<< /Size {} /Root 1 0 R >>\nstartxref\n{xref}\n%%EOF\n", leaf + 1).as_bytes());
        check(format!("chain of {depth} /Pages levels"), out, vec![(leaf, Some([0.0, 0.0, 300.0, 400.0]), Some(180))], &mut evaluated);
    }
    println!("{{\"cmd\":\"pagetree\",\"bound\":\"kids lists of length <= {maxlen} over 3 leaves and 3 /Pages nodes (shared nodes, repeats, cycles); 8 attribute placements; chains of 1..40 levels\",\"evaluated\":{},\"disagreement_count\":{},\"disagreements\":[{}]}}", evaluated, nbad + cyc_n, { bad.extend(cyc_bad); bad.join(",") });
}

// C26 Eb: (1) CMap text written by hand from ISO 32000-1 9.10.3 (bfchar, bfrange in offset and array form, code-space ranges of
// 1..4 bytes, ranges that cross a 256-code row and need a carry): every code maps to the Unicode the CMap defines, codes outside
// the ranges and outside the code space are not mapped. (2) ToUnicodeCMapBuilder: every set of <= 3 mappings over a small code /
// character alphabet -> build() -> CMap::parse -> map + to_unicode gives the mapping back.
fn cmd_cmap(nmap: usize) {
    use oxidize_pdf::text::cmap::{CMap, ToUnicodeCMapBuilder};
    let mut evaluated = 0u64; let mut bad: Vec<String> = vec![];
    let utf16be = |s: &str| -> Vec<u8> { s.encode_utf16().flat_map(|u| u.to_be_bytes()).collect() };
    let hex = |b: &[u8]| -> String { b.iter().map(|x| format!("{x:02X}")).collect() };
    // (1) hand-written CMaps
    for width in 1usize..=4 {
        let lo = vec![0u8; width]; let hi = vec![0xFFu8; width];
        // range [..00F0, ..010F] -> U+0430.. (crosses a row when width >= 2), bfchar ..0005 -> "fi", array range ..0020..0022
        let code = |v: u32| -> Vec<u8> { v.to_be_bytes()[4 - width..].to_vec() };
        let (r_lo, r_hi) = if width == 1 { (0x10u32, 0x2F) } else { (0xF0u32, 0x10F) };
        let text = format!("/CIDInit /ProcSet findresource begin\n12 dict begin\nbegincmap\n1 begincodespacerange\n<{}> <{}>\nendcodespacerange\n1 beginbfchar\n<{}> <00660069>\nendbfchar\n2 beginbfrange\n<{}> <{}> <04F0>\n<{}> <{}> [<0041> <D83DDE00> <0042>]\nendbfrange\nendcmap\n",
            hex(&lo), hex(&hi), hex(&code(5)), hex(&code(r_lo)), hex(&code(r_hi)), hex(&code(0x40)), hex(&code(0x42)));
        let cm = match CMap::parse(text.as_bytes()) { Ok(c) => c, Err(e) => { bad.push(format!("{{\"what\":\"parse of a {width}-byte CMap failed\",\"error\":{}}}", js(&e.to_string()))); continue; } };
        let uni = |c: &[u8]| -> Option<String> { cm.map(c).and_then(|m| cm.to_unicode(&m)) };
        for v in r_lo..=r_hi {
            evaluated += 1;
            let want: String = char::from_u32(0x4F0 + (v - r_lo)).unwrap().to_string();
            if uni(&code(v)).as_deref() != Some(want.as_str()) && bad.len() < 8 { bad.push(format!("{{\"width\":{width},\"code\":\"{}\",\"expected\":{},\"got\":{}}}", hex(&code(v)), js(&want), js(&format!("{:?}", uni(&code(v)))))); }
        }
        for (v, want) in [(5u32, "fi"), (0x40, "A"), (0x41, "\u{1F600}"), (0x42, "B")] {
            evaluated += 1;
            if uni(&code(v)).as_deref() != Some(want) && bad.len() < 8 { bad.push(format!("{{\"width\":{width},\"code\":\"{}\",\"expected\":{},\"got\":{}}}", hex(&code(v)), js(want), js(&format!("{:?}", uni(&code(v)))))); }
        }
        // a range of more than 256 codes (offsets above 255 need the carry beyond the last byte)
        if width >= 2 {
            let text2 = format!("/CIDInit /ProcSet findresource begin\n12 dict begin\nbegincmap\n1 begincodespacerange\n<{}> <{}>\nendcodespacerange\n1 beginbfrange\n<{}> <{}> <0041>\nendbfrange\nendcmap\n", hex(&lo), hex(&hi), hex(&code(0x20)), hex(&code(0x420)));
            if let Ok(cm2) = CMap::parse(text2.as_bytes()) {
                for v in 0x20u32..=0x420 {
                    evaluated += 1;
                    let want = char::from_u32(0x41 + (v - 0x20)).unwrap().to_string();
                    let got = cm2.map(&code(v)).and_then(|m| cm2.to_unicode(&m));
                    if got.as_deref() != Some(want.as_str()) && bad.len() < 8 { bad.push(format!("{{\"width\":{width},\"range\":\"<0020> <0420> <0041>\",\"code\":\"{}\",\"expected\":{},\"got\":{}}}", hex(&code(v)), js(&want), js(&format!("{:?}", got)))); }
                }
            } else { bad.push(format!("{{\"what\":\"parse of the long-range CMap failed\",\"width\":{width}}}")); }
        }
        // neighbours of the ranges are not mapped by them
        for v in [r_lo - 1, r_hi + 1, 0x3F, 0x43, 4, 6] {
            evaluated += 1;
            if let Some(u) = uni(&code(v)) { if bad.len() < 8 { bad.push(format!("{{\"width\":{width},\"code\":\"{}\",\"expected\":\"unmapped\",\"got\":{}}}", hex(&code(v)), js(&u))); } }
        }
        let _ = utf16be;
    }
    // (2) builder round trip
    let chars = ["A", "\u{e9}", "\u{ffff}", "\u{10000}", "\u{10FFFF}", "fi"];
    for code_len in [1usize, 2] {
        let codes: Vec<Vec<u8>> = if code_len == 1 { vec![vec![0x00], vec![0x41], vec![0xFF], vec![0x42]] } else { vec![vec![0, 0], vec![0, 0x41], vec![0, 0xFF], vec![1, 0], vec![0xFF, 0xFF]] };
        let mut sets: Vec<Vec<(usize, usize)>> = vec![vec![]];
        for _ in 0..nmap { let mut nxt = vec![]; for st in &sets { for ci in 0..codes.len() { if st.iter().any(|m| m.0 == ci) || st.last().map(|m| m.0 > ci).unwrap_or(false) { continue; } for ui in 0..chars.len() { let mut x = st.clone(); x.push((ci, ui)); nxt.push(x); } } } sets.extend(nxt); }
        sets.sort(); sets.dedup();
        for st in sets.iter().filter(|s| !s.is_empty()) {
            evaluated += 1;
            let mut b = ToUnicodeCMapBuilder::new(code_len);
            for (ci, ui) in st { b.add_mapping(codes[*ci].clone(), chars[*ui]); }
            let data = b.build();
            let ok = match CMap::parse(&data) { Ok(cm) => st.iter().all(|(ci, ui)| cm.map(&codes[*ci]).and_then(|m| cm.to_unicode(&m)).as_deref() == Some(chars[*ui])), Err(_) => false };
            if !ok && bad.len() < 8 { bad.push(format!("{{\"code_length\":{code_len},\"mappings\":{},\"cmap\":{}}}", js(&format!("{:?}", st.iter().map(|(c, u)| (hex(&codes[*c]), chars[*u])).collect::<Vec<_>>())), js(&String::from_utf8_lossy(&data).chars().take(300).collect::<String>()))); }
        }
    }
    println!("{{\"cmd\":\"cmap\",\"bound\":\"hand-written CMaps with 1..4-byte codes (bfchar, bfrange offset form crossing a row, bfrange array form incl. a surrogate pair); ToUnicodeCMapBuilder with every set of <= {nmap} mappings over 4-5 codes x 6 strings\",\"evaluated\":{},\"disagreements\":[{}]}}", evaluated, bad.join(","));
}

// C16 Eb: page operations on a hand-written 3-page source whose pages differ in everything the property names: one page with a
// /Contents ARRAY whose streams do not end in white space, one with its own /Rotate and /MediaBox, one inheriting MediaBox and
// Rotate from two ancestor levels. extract (every subset order of <= 2 pages), split + merge, reverse, swap, move, rotate by each
// angle: output page k must be input page perm[k] with the same content tokens, MediaBox and rotation (+ angle).
fn cmd_pageops() {
    use oxidize_pdf::operations::{extract_pages_to_file, merge_pdf_files, reverse_pdf_pages, rotate_all_pages, split_into_pages, RotationAngle};
    use oxidize_pdf::parser::content::ContentParser;
    use oxidize_pdf::parser::PdfReader;
    let dir = std::env::temp_dir().join(format!("verif_pageops_{}", std::process::id()));
    let _ = std::fs::create_dir_all(&dir);
    let stream = |d: &str| format!("<< /Length {} >>\nstream\n{d}\nendstream", d.len());
    let bodies: Vec<String> = vec![
        "<< /Type /Catalog /Pages 2 0 R >>".into(),
        "<< /Type /Pages /Kids [3 0 R 4 0 R] /Count 3 /MediaBox [0 0 400 600] /Rotate 90 >>".into(),
        "<< /Type /Page /Parent 2 0 R /Contents [6 0 R 7 0 R 8 0 R] /Resources << /Font << /F1 10 0 R >> >> >>".into(),   // page A: multi-stream, inherits box + rotate 90
        "<< /Type /Pages /Parent 2 0 R /Kids [5 0 R 11 0 R] /Count 2 /MediaBox [0 0 200 300] /Rotate 180 >>".into(),
        "<< /Type /Page /Parent 4 0 R /Contents 9 0 R /Resources << /Font << /F1 10 0 R >> >> >>".into(),                   // page B: inherits from the NEARER ancestor (200x300, 180)
        stream("q 1 0 0 1 10 20 cm"), stream("BT /F1 12 Tf (page A) Tj ET"), stream("Q"),
        stream("BT /F1 9 Tf 5 5 Td (page B) Tj ET"),
        "<< /Type /Font /Subtype /Type1 /BaseFont /Helvetica >>".into(),
        "<< /Type /Page /Parent 4 0 R /MediaBox [0 0 150 250] /Rotate 270 /Contents 12 0 R /Resources << /Font << /F1 10 0 R >> >> >>".into(),   // page C: own box and rotate
        stream("0.5 g 10 10 30 40 re f BT /F1 8 Tf (page C) Tj ET"),
    ];
    let mut pdf = b"%PDF-1.4\n".to_vec(); let mut offs = vec![];
    for (i, b) in bodies.iter().enumerate() { offs.push(pdf.len()); pdf.extend_from_slice(format!("{} 0 obj\n{b}\nendobj\n", i + 1).as_bytes()); }
    let xref = pdf.len(); pdf.extend_from_slice(format!("xref\n0 {}\n0000000000 65535 f \n", bodies.len() + 1).as_bytes());
    for o in &offs { pdf.extend_from_slice(format!("{o:010} 00000 n \n").as_bytes()); }
    pdf.extend_from_slice(format!("trailer\n<< /Size {} /Root 1 0 R >>\nstartxref\n{xref}\n%%EOF\n", bodies.len() + 1).as_bytes());
    let src = dir.join("source.pdf"); std::fs::write(&src, &pdf).unwrap();
    type Snap = (Vec<String>, [f64; 4], i32);
    let snap = |path: &std::path::Path| -> Result<Vec<Snap>, String> {
        let doc = PdfReader::open_document(path).map_err(|e| format!("open: {e}"))?;
        let n = doc.page_count().map_err(|e| e.to_string())?;
        let mut out = vec![];
        for i in 0..n {
            let page = doc.get_page(i).map_err(|e| format!("get_page: {e}"))?;
            let mut all = vec![];
            for st in page.content_streams_with_document(&doc).map_err(|e| format!("content: {e}"))? { all.extend_from_slice(&st); all.push(b'\n'); }
            let ops = ContentParser::parse(&all).map_err(|e| format!("content parse: {e}"))?;
            out.push((ops.iter().map(|o| format!("{:?}", o)).collect(), page.media_box, page.rotation.rem_euclid(360)));
        }
        Ok(out)
    };
    let mut evaluated = 0u64; let bad: std::cell::RefCell<Vec<String>> = std::cell::RefCell::new(vec![]);
    let base = match snap(&src) { Ok(b) if b.len() == 3 => b, other => { println!("{{\"cmd\":\"pageops\",\"evaluated\":0,\"disagreements\":[{{\"what\":\"source not read as intended\",\"got\":{}}}]}}", js(&format!("{:?}", other))); return; } };
    // the source itself: page A inherits 400x600 / 90, page B the nearer 200x300 / 180, page C its own 150x250 / 270
    evaluated += 1;
    if !(base[0].1 == [0.0, 0.0, 400.0, 600.0] && base[0].2 == 90 && base[1].1 == [0.0, 0.0, 200.0, 300.0] && base[1].2 == 180 && base[2].1 == [0.0, 0.0, 150.0, 250.0] && base[2].2 == 270) {
        bad.borrow_mut().push(format!("{{\"what\":\"inherited attributes of the source\",\"got\":{}}}", js(&format!("{:?}", base.iter().map(|b| (b.1, b.2)).collect::<Vec<_>>()))));
    }
    let expect = |what: String, out: &std::path::Path, perm: &[usize], add_rot: i32, evaluated: &mut u64| {
        *evaluated += 1;
        let got = snap(out);
        let ok = match &got { Ok(g) => g.len() == perm.len() && g.iter().zip(perm.iter()).all(|(x, p)| x.0 == base[*p].0 && x.1 == base[*p].1 && x.2 == (base[*p].2 + add_rot).rem_euclid(360)), Err(_) => false };
        if !ok && bad.borrow().len() < 6 { bad.borrow_mut().push(format!("{{\"operation\":{},\"expected_pages\":{:?},\"got\":{}}}", js(&what), perm, js(&format!("{:?}", got.map(|g| g.iter().map(|x| (x.0.len(), x.1, x.2)).collect::<Vec<_>>())).chars().take(300).collect::<String>()))); }
    };
    for sel in [vec![0usize], vec![1], vec![2], vec![0, 1], vec![1, 0], vec![2, 0], vec![1, 2], vec![0, 1, 2], vec![2, 1, 0]] {
        let out = dir.join("extract.pdf");
        match extract_pages_to_file(&src, &sel, &out) { Ok(_) => expect(format!("extract {:?}", sel), &out, &sel, 0, &mut evaluated), Err(e) => { evaluated += 1; bad.borrow_mut().push(format!("{{\"operation\":\"extract {:?}\",\"error\":{}}}", sel, js(&e.to_string()))); } }
    }
    { let pattern = dir.join("part_{}.pdf");
      match split_into_pages(&src, pattern.to_str().unwrap()) { Ok(parts) => { let merged = dir.join("merged.pdf"); match merge_pdf_files(&parts, &merged) { Ok(_) => expect("split into pages, then merge".into(), &merged, &[0, 1, 2], 0, &mut evaluated), Err(e) => { evaluated += 1; bad.borrow_mut().push(format!("{{\"operation\":\"merge\",\"error\":{}}}", js(&e.to_string()))); } } } Err(e) => { evaluated += 1; bad.borrow_mut().push(format!("{{\"operation\":\"split\",\"error\":{}}}", js(&e.to_string()))); } } }
    { let out = dir.join("reversed.pdf"); match reverse_pdf_pages(&src, &out) { Ok(_) => expect("reverse".into(), &out, &[2, 1, 0], 0, &mut evaluated), Err(e) => { evaluated += 1; bad.borrow_mut().push(format!("{{\"operation\":\"reverse\",\"error\":{}}}", js(&e.to_string()))); } } }
    for (angle, deg) in [(RotationAngle::None, 0), (RotationAngle::Clockwise90, 90), (RotationAngle::Rotate180, 180), (RotationAngle::Clockwise270, 270)] {
        let out = dir.join("rotated.pdf"); match rotate_all_pages(&src, &out, angle) { Ok(_) => expect(format!("rotate all by {deg}"), &out, &[0, 1, 2], deg, &mut evaluated), Err(e) => { evaluated += 1; bad.borrow_mut().push(format!("{{\"operation\":\"rotate {deg}\",\"error\":{}}}", js(&e.to_string()))); } }
    }
    // page boxes with a non-zero origin and a /CropBox (named in the property): reported separately
    let mut origin_wrong: Vec<String> = vec![];
    {
        let b2: Vec<String> = vec!["<< /Type /Catalog /Pages 2 0 R >>".into(), "<< /Type /Pages /Kids [3 0 R] /Count 1 >>".into(),
            "<< /Type /Page /Parent 2 0 R /MediaBox [10 20 210 320] /CropBox [15 25 200 300] /Contents 4 0 R >>".into(), stream("q Q")];
        let mut pdf = b"%PDF-1.4\n".to_vec(); let mut offs = vec![];
        for (i, b) in b2.iter().enumerate() { offs.push(pdf.len()); pdf.extend_from_slice(format!("{} 0 obj\n{b}\nendobj\n", i + 1).as_bytes()); }
        let xref = pdf.len(); pdf.extend_from_slice(b"xref\n0 5\n0000000000 65535 f \n");
        for o in &offs { pdf.extend_from_slice(format!("{o:010} 00000 n \n").as_bytes()); }
        pdf.extend_from_slice(format!("trailer\n<< /Size 5 /Root 1 0 R >>\nstartxref\n{xref}\n%%EOF\n").as_bytes());
        let src2 = dir.join("origin.pdf"); std::fs::write(&src2, &pdf).unwrap();
        let out = dir.join("origin_out.pdf");
        let boxes = |p: &std::path::Path| -> Option<([f64; 4], Option<[f64; 4]>)> { let d = PdfReader::open_document(p).ok()?; let pg = d.get_page(0).ok()?; Some((pg.media_box, pg.crop_box)) };
        if extract_pages_to_file(&src2, &[0], &out).is_ok() {
            let (a, b) = (boxes(&src2), boxes(&out));
            if a != b || a.map(|x| x.0) != Some([10.0, 20.0, 210.0, 320.0]) { origin_wrong.push(format!("{{\"operation\":\"extract\",\"source_boxes\":{},\"output_boxes\":{}}}", js(&format!("{:?}", a)), js(&format!("{:?}", b)))); }
        } else { origin_wrong.push("{\"operation\":\"extract\",\"error\":true}".to_string()); }
    }
    let _ = std::fs::remove_dir_all(&dir);
    println!("{{\"cmd\":\"pageops\",\"bound\":\"one 3-page source (multi-stream contents, two levels of inherited MediaBox/Rotate, own attributes); 9 extractions, split+merge, reverse, 4 rotations; one page with MediaBox [10 20 210 320] and a CropBox\",\"evaluated\":{},\"disagreements\":[{}],\"origin_wrong\":{},\"origin_examples\":[{}]}}", evaluated + 1, bad.borrow().join(","), origin_wrong.len(), origin_wrong.join(","));
}

// C23 Eb: the standard security handler against an independent transcription of ISO 32000-1 Algorithms 2, 3, 4/5 (revisions 2-3,
// key lengths 5..16 bytes) and ISO 32000-2 Algorithm 2.B (revision 6), written here from the standards on top of the md5 / sha2 /
// aes primitives: same /O, file key, /U and R6 hash for every password in a generated list.
fn ref_rc4(key: &[u8], data: &[u8]) -> Vec<u8> {
    let mut s: Vec<u8> = (0..=255u8).collect(); let mut j = 0u8;
    for i in 0..256 { j = j.wrapping_add(s[i]).wrapping_add(key[i % key.len()]); s.swap(i, j as usize); }
    let (mut i, mut j) = (0u8, 0u8);
    data.iter().map(|b| { i = i.wrapping_add(1); j = j.wrapping_add(s[i as usize]); s.swap(i as usize, j as usize); b ^ s[(s[i as usize].wrapping_add(s[j as usize])) as usize] }).collect()
}
const REF_PAD: [u8; 32] = [0x28, 0xBF, 0x4E, 0x5E, 0x4E, 0x75, 0x8A, 0x41, 0x64, 0x00, 0x4E, 0x56, 0xFF, 0xFA, 0x01, 0x08, 0x2E, 0x2E, 0x00, 0xB6, 0xD0, 0x68, 0x3E, 0x80, 0x2F, 0x0C, 0xA9, 0xFE, 0x64, 0x53, 0x69, 0x7A];
fn ref_pad(pw: &[u8]) -> Vec<u8> { let mut v: Vec<u8> = pw.iter().take(32).cloned().collect(); let k = v.len(); v.extend_from_slice(&REF_PAD[..32 - k]); v }
fn ref_alg3_owner(owner: &[u8], user: &[u8], rev: u8, n: usize) -> Vec<u8> {
    let mut h = md5::compute(ref_pad(if owner.is_empty() { user } else { owner })).0.to_vec();
    if rev >= 3 { for _ in 0..50 { h = md5::compute(&h).0.to_vec(); } }
    let key = &h[..n];
    let mut out = ref_rc4(key, &ref_pad(user));
    if rev >= 3 { for i in 1..=19u8 { let k: Vec<u8> = key.iter().map(|b| b ^ i).collect(); out = ref_rc4(&k, &out); } }
    out
}
fn ref_alg2_key(user: &[u8], o: &[u8], p: u32, id: &[u8], rev: u8, n: usize) -> Vec<u8> {
    let mut d = ref_pad(user); d.extend_from_slice(o); d.extend_from_slice(&p.to_le_bytes()); d.extend_from_slice(id);
    let mut h = md5::compute(&d).0.to_vec();
    if rev >= 3 { for _ in 0..50 { h = md5::compute(&h[..n]).0.to_vec(); } }
    h[..n].to_vec()
}
fn ref_alg45_user(key: &[u8], id: &[u8], rev: u8) -> Vec<u8> {
    if rev == 2 { return ref_rc4(key, &REF_PAD); }
    let mut d = REF_PAD.to_vec(); d.extend_from_slice(id);
    let mut out = ref_rc4(key, &md5::compute(&d).0);
    for i in 1..=19u8 { let k: Vec<u8> = key.iter().map(|b| b ^ i).collect(); out = ref_rc4(&k, &out); }
    out.extend_from_slice(&[0u8; 16]); out
}
fn ref_alg2b(password: &[u8], salt: &[u8], u: &[u8]) -> Vec<u8> {
    use aes::cipher::{BlockEncrypt, KeyInit, generic_array::GenericArray};
    use sha2::{Digest, Sha256, Sha384, Sha512};
    let mut k: Vec<u8> = { let mut h = Sha256::new(); h.update(password); h.update(salt); h.update(u); h.finalize().to_vec() };
    let mut round = 0u32;
    loop {
        let mut k1: Vec<u8> = Vec::new(); for _ in 0..64 { k1.extend_from_slice(password); k1.extend_from_slice(&k); k1.extend_from_slice(u); }
        // AES-128-CBC, no padding, key = K[0..16], IV = K[16..32]
        let cipher = aes::Aes128::new(GenericArray::from_slice(&k[..16])); let mut prev: [u8; 16] = k[16..32].try_into().unwrap(); let mut e = Vec::with_capacity(k1.len());
        for blk in k1.chunks(16) { let mut b = [0u8; 16]; for i in 0..16 { b[i] = blk[i] ^ prev[i]; } let mut ga = GenericArray::clone_from_slice(&b); cipher.encrypt_block(&mut ga); prev.copy_from_slice(&ga); e.extend_from_slice(&ga); }
        let m: u32 = e[..16].iter().map(|b| *b as u32).sum::<u32>() % 3;
        k = match m { 0 => Sha256::digest(&e).to_vec(), 1 => Sha384::digest(&e).to_vec(), _ => Sha512::digest(&e).to_vec() };
        round += 1;
        if round >= 64 && (*e.last().unwrap() as u32) <= round - 32 { break; }
    }
    k[..32].to_vec()
}
fn cmd_crypto_ref(npw: usize) {
    use oxidize_pdf::encryption::{compute_hash_r6_algorithm_2b, OwnerPassword, Permissions, SecurityHandlerRevision, StandardSecurityHandler, UserPassword};
    let mut evaluated = 0u64; let mut bad: Vec<String> = vec![];
    let hexs = |b: &[u8]| -> String { b.iter().map(|x| format!("{x:02x}")).collect() };
    let id: Vec<u8> = (1..=16u8).collect();
    let mut perms = Permissions::new(); perms.set_print(true);
    let pws: Vec<String> = (0..npw).map(|i| match i % 4 { 0 => format!("password-{i}"), 1 => format!("pw{i}"), 2 => "x".repeat(i % 40), _ => format!("A much longer pass phrase number {i} that exceeds thirty-two bytes") }).collect();
    for (rev, sr) in [(2u8, SecurityHandlerRevision::R2), (3u8, SecurityHandlerRevision::R3)] {
        for n in if rev == 2 { vec![5usize] } else { vec![5usize, 7, 10, 13, 15, 16] } {
            let handler = StandardSecurityHandler { revision: sr, key_length: n };
            for (i, pw) in pws.iter().enumerate().take(npw.min(24)) {
                evaluated += 1;
                let user = UserPassword(pw.clone()); let owner = OwnerPassword(format!("owner-{i}"));
                let r = panic::catch_unwind(|| -> Result<(Vec<u8>, Vec<u8>, Vec<u8>), String> {
                    let o = handler.compute_owner_hash(&owner, &user);
                    let key = handler.compute_encryption_key(&user, &o, perms, Some(&id)).map_err(|e| e.to_string())?;
                    let u = handler.compute_user_hash(&user, &o, perms, Some(&id)).map_err(|e| e.to_string())?;
                    Ok((o, key.as_bytes().to_vec(), u))
                });
                let ro = ref_alg3_owner(owner.0.as_bytes(), pw.as_bytes(), rev, n);
                let rk = ref_alg2_key(pw.as_bytes(), &ro, perms.bits(), &id, rev, n);
                let ru = ref_alg45_user(&rk, &id, rev);
                let ok = match &r { Ok(Ok((o, k, u))) => *o == ro && *k == rk && u[..16] == ru[..16], _ => false };
                if !ok && bad.len() < 6 { bad.push(format!("{{\"revision\":{rev},\"key_bytes\":{n},\"user_password\":{},\"expected\":{},\"got\":{}}}", js(pw), js(&format!("O={} key={} U={}", hexs(&ro), hexs(&rk), hexs(&ru[..16]))), js(&format!("{:?}", r.map(|x| x.map(|(o, k, u)| format!("O={} key={} U={}", hexs(&o), hexs(&k), hexs(&u[..16.min(u.len())])))).map_err(|_| "PANIC"))))); }
            }
        }
    }
    let salt = [0x10u8, 0x21, 0x32, 0x43, 0x54, 0x65, 0x76, 0x87];
    for pw in &pws {
        for u in [vec![], (0..48u8).collect::<Vec<u8>>()] {
            evaluated += 1;
            let got = compute_hash_r6_algorithm_2b(pw.as_bytes(), &salt, &u);
            let want = ref_alg2b(pw.as_bytes(), &salt, &u);
            let ok = matches!(&got, Ok(g) if *g == want);
            if !ok && bad.len() < 6 { bad.push(format!("{{\"algorithm\":\"2.B\",\"password\":{},\"u_len\":{},\"expected\":\"{}\",\"got\":{}}}", js(pw), u.len(), hexs(&want), js(&format!("{:?}", got.map(|g| hexs(&g)).map_err(|e| e.to_string()))))); }
        }
    }
    println!("{{\"cmd\":\"crypto-ref\",\"bound\":\"Algorithms 2/3/4/5 for R2 (5-byte key) and R3 (5,7,10,13,15,16-byte keys) x 24 passwords; Algorithm 2.B for {npw} passwords x 2 /U inputs; reference transcribed from ISO 32000-1/-2 on md5/sha2/aes\",\"evaluated\":{},\"disagreements\":[{}]}}", evaluated, bad.join(","));
}

// C24 Eb: raw RGBA / grey+alpha buffers -> Image -> image XObject + soft mask, decoded the way a consumer decodes them (rows start on
// byte boundaries, BitsPerComponent / ColorSpace / Filter taken from the dictionaries): colour samples and alpha must be the ones
// supplied. Widths 1..17 (not only multiples of 8), heights 1..3, alpha patterns: opaque, binary, graded.
fn cmd_image_alpha() {
    use oxidize_pdf::graphics::Image;
    use oxidize_pdf::objects::Object;
    use std::io::Read;
    let mut evaluated = 0u64; let mut bad: Vec<String> = vec![];
    let int = |o: Option<&Object>| -> Option<usize> { match o { Some(Object::Integer(i)) => Some(*i as usize), _ => None } };
    // samples of a single-plane or multi-component image stream, unpacked to 8 bits, rows byte-aligned
    let unpack = |dict: &oxidize_pdf::objects::Dictionary, data: &[u8], comps: usize| -> Result<Vec<u8>, String> {
        let raw = match dict.get("Filter") { Some(Object::Name(n)) if n == "FlateDecode" => { let mut out = vec![]; flate2::read::ZlibDecoder::new(data).read_to_end(&mut out).map_err(|e| e.to_string())?; out }, None => data.to_vec(), other => return Err(format!("unexpected /Filter {:?}", other)) };
        let (w, h, bpc) = (int(dict.get("Width")).ok_or("Width")?, int(dict.get("Height")).ok_or("Height")?, int(dict.get("BitsPerComponent")).ok_or("BitsPerComponent")?);
        if ![1usize, 2, 4, 8].contains(&bpc) { return Err(format!("BitsPerComponent {bpc}")); }
        let row_bytes = (w * comps * bpc + 7) / 8;
        if raw.len() < row_bytes * h { return Err(format!("stream too short: {} bytes for {w}x{h}x{comps} at {bpc} bpc", raw.len())); }
        let max = (1u32 << bpc) - 1; let mut out = vec![];
        for y in 0..h { let row = &raw[y * row_bytes..(y + 1) * row_bytes]; for x in 0..w * comps { let bit = x * bpc; let v = ((row[bit / 8] as u32) >> (8 - bpc - (bit % 8))) & max; out.push((v * 255 / max) as u8); } }
        Ok(out)
    };
    for w in 1usize..=17 { for h in 1usize..=3 { for pat in 0..4 {
        let alpha = |x: usize, y: usize| -> u8 { match pat { 0 => 255, 1 => if (x + y) % 2 == 0 { 255 } else { 0 }, 2 => if x % 3 == 0 { 0 } else { 255 }, _ => ((x * 37 + y * 91) % 256) as u8 } };
        let mut rgba = vec![]; let mut want_rgb = vec![]; let mut want_a = vec![];
        for y in 0..h { for x in 0..w { let px = [(x * 13 + y * 7) as u8, (x * 5 + 100) as u8, (y * 60 + 3) as u8]; rgba.extend_from_slice(&px); rgba.push(alpha(x, y)); want_rgb.extend_from_slice(&px); want_a.push(alpha(x, y)); } }
        evaluated += 1;
        let r = panic::catch_unwind(|| -> Result<(Vec<u8>, Option<Vec<u8>>), String> {
            let image = Image::from_rgba_data(rgba.clone(), w as u32, h as u32).map_err(|e| e.to_string())?;
            let (img, smask) = image.to_pdf_object_with_transparency().map_err(|e| e.to_string())?;
            let rgb = match &img { Object::Stream(d, data) => unpack(d, data, 3)?, _ => return Err("image is not a stream".into()) };
            let a = match &smask { Some(Object::Stream(d, data)) => Some(unpack(d, data, 1)?), None => None, _ => return Err("SMask is not a stream".into()) };
            Ok((rgb, a))
        });
        let ok = match &r { Ok(Ok((rgb, a))) => *rgb == want_rgb && match a { Some(a) => *a == want_a, None => want_a.iter().all(|v| *v == 255) }, _ => false };
        if !ok && bad.len() < 6 { bad.push(format!("{{\"width\":{w},\"height\":{h},\"alpha_pattern\":{pat},\"expected_alpha\":{:?},\"got\":{}}}", want_a, js(&format!("{:?}", r.map(|x| x.map(|(_, a)| a)).map_err(|_| "PANIC")).chars().take(300).collect::<String>()))); } else if !ok { bad.push(String::new()); }
    } } }
    // PNG headers with extreme dimensions and a few bytes of image data: an error, never a panic
    for (w, h, depth, ctype) in [(0x7FFF_FFFFu32, 0x7FFF_FFFFu32, 8u8, 6u8), (0xFFFF_FFFF, 0xFFFF_FFFF, 16, 6), (0xFFFF_FFFF, 2, 8, 2), (1, 0xFFFF_FFFF, 8, 0), (0xFFFF_FFFF, 0xFFFF_FFFF, 255, 6), (3, 3, 0, 2)] {
        evaluated += 1;
        let mut ihdr = vec![]; ihdr.extend_from_slice(&w.to_be_bytes()); ihdr.extend_from_slice(&h.to_be_bytes()); ihdr.extend_from_slice(&[depth, ctype, 0, 0, 0]);
        let comp = { use std::io::Write; let mut e = flate2::write::ZlibEncoder::new(Vec::new(), flate2::Compression::default()); e.write_all(&[0u8, 1, 2, 3, 4, 5, 6, 7]).unwrap(); e.finish().unwrap() };
        let mut png = vec![0x89u8, b'P', b'N', b'G', 0x0D, 0x0A, 0x1A, 0x0A];
        png.extend(png_chunk(b"IHDR", &ihdr)); png.extend(png_chunk(b"IDAT", &comp)); png.extend(png_chunk(b"IEND", &[]));
        let r = panic::catch_unwind(|| Image::from_png_data(png.clone()).map(|_| ()).map_err(|e| e.to_string()));
        if r.is_err() && bad.len() < 6 { bad.push(format!("{{\"png_header\":\"{w} x {h}, bit depth {depth}, colour type {ctype}\",\"outcome\":\"PANIC\"}}")); }
    }
    // several images in ONE document: same geometry, sample data that differs only in the middle, at both ends, or not at all; every
    // page's image XObject (and soft mask) must decode to the pixels supplied for THAT page
    {
        use oxidize_pdf::parser::objects::PdfObject;
        use oxidize_pdf::parser::{PdfDocument, PdfReader};
        let (w, h) = (96u32, 64u32);
        let mk = |variant: u8, rgba: bool| -> Vec<u8> {
            let comps = if rgba { 4 } else { 1 };
            let mut v = vec![0xEEu8; (w * h) as usize * comps];
            let n = v.len();
            match variant { 1 => { v[n / 2] = 0x11; v[n / 2 + 1] = 0x22; } 2 => { v[n / 2 + 7] = 0x33; } 3 => { v[0] = 0x44; v[n - 1] = 0x55; } _ => {} }
            v
        };
        for rgba in [false, true] {
            evaluated += 1;
            let variants = [0u8, 1, 2, 3, 0];
            let r = panic::catch_unwind(|| -> Result<Vec<usize>, String> {
                let mut doc = oxidize_pdf::Document::new();
                for (i, var) in variants.iter().enumerate() {
                    let img = if rgba { Image::from_rgba_data(mk(*var, true), w, h) } else { Image::from_gray_data(mk(*var, false), w, h) }.map_err(|e| e.to_string())?;
                    let mut page = oxidize_pdf::Page::a4();
                    page.add_image(format!("Im{i}"), img);
                    page.draw_image(&format!("Im{i}"), 10.0, 10.0, 96.0, 64.0).map_err(|e| e.to_string())?;
                    doc.add_page(page);
                }
                let bytes = doc.to_bytes().map_err(|e| e.to_string())?;
                let parsed = PdfDocument::new(PdfReader::new(std::io::Cursor::new(bytes)).map_err(|e| e.to_string())?);
                let mut wrong = vec![];
                for (i, var) in variants.iter().enumerate() {
                    let page = parsed.get_page(i as u32).map_err(|e| e.to_string())?;
                    let res = page.get_resources().ok_or("no resources")?;
                    let xo = parsed.resolve(res.get("XObject").ok_or("no XObject")?).map_err(|e| e.to_string())?;
                    let im = parsed.resolve(xo.as_dict().ok_or("XObject not a dict")?.get(&format!("Im{i}")).ok_or("image missing")?).map_err(|e| e.to_string())?;
                    let st = match &im { PdfObject::Stream(s) => s, _ => return Err("image is not a stream".into()) };
                    let got = parsed.decode_stream(st).map_err(|e| e.to_string())?;
                    let src = mk(*var, rgba);
                    let want: Vec<u8> = if rgba { src.chunks(4).flat_map(|p| p[..3].to_vec()).collect() } else { src.clone() };
                    let mut ok = got == want;
                    if rgba {
                        let sm = parsed.resolve(st.dict.get("SMask").ok_or("no SMask")?).map_err(|e| e.to_string())?;
                        let sms = match &sm { PdfObject::Stream(s) => s, _ => return Err("SMask is not a stream".into()) };
                        let a = parsed.decode_stream(sms).map_err(|e| e.to_string())?;
                        let wa: Vec<u8> = src.chunks(4).map(|p| p[3]).collect();
                        ok = ok && a == wa;
                    }
                    if !ok { wrong.push(i); }
                }
                Ok(wrong)
            });
            let ok = matches!(&r, Ok(Ok(v)) if v.is_empty());
            if !ok && bad.len() < 6 { bad.push(format!("{{\"document\":\"5 pages, one {} image of 96x64 each, buffers equal except in the middle / at the ends\",\"pages_with_wrong_pixels\":{}}}", if rgba { "RGBA" } else { "grey" }, js(&format!("{:?}", r.map_err(|_| "PANIC"))))); } else if !ok { bad.push(String::new()); }
        }
    }
    // raw buffers whose length equals width*height*4 (or width*height) only modulo 2^32: refused, never accepted and never a panic
    for (w, h, len, gray) in [(0x8000_0001u32, 2u32, 8usize, false), (65536, 65536, 0, false), (0x4000_0000, 4, 0, false), (65536, 65536, 0, true), (0x8000_0001, 2, 2, true)] {
        evaluated += 1;
        let r = panic::catch_unwind(|| if gray { Image::from_gray_data(vec![0u8; len], w, h).map(|_| ()).map_err(|e| e.to_string()) } else { Image::from_rgba_data(vec![0u8; len], w, h).map(|_| ()).map_err(|e| e.to_string()) });
        let ok = matches!(&r, Ok(Err(_)));
        if !ok && bad.len() < 6 { bad.push(format!("{{\"raw_buffer\":\"{} bytes given as {w} x {h} {}\",\"outcome\":{}}}", len, if gray { "grey" } else { "RGBA" }, js(&format!("{:?}", r.map_err(|_| "PANIC"))))); } else if !ok { bad.push(String::new()); }
    }
    let n = bad.len(); bad.retain(|b| !b.is_empty());
    println!("{{\"cmd\":\"image-alpha\",\"bound\":\"RGBA buffers of width 1..17 x height 1..3 x 4 alpha patterns (opaque, two binary, graded) -> image XObject + SMask decoded with byte-aligned rows; 6 PNG headers with extreme dimensions / bit depths; 5 raw buffers whose size matches the dimensions only modulo 2^32; 2 five-page documents with same-size images that differ only in the middle / at the ends\",\"evaluated\":{},\"disagreement_count\":{},\"disagreements\":[{}]}}", evaluated, n, bad.join(","));
}

// C12 Eb: synthetic TrueType fonts (400 glyphs; composites incl. nested ones and one using the font's last glyph; short and long
// loca; with and without hinting programs of odd length) subset through subset_font for several character sets: every requested
// character must keep its flattened outline and advance width, as read by an independent glyf/loca/hmtx reader.
fn cmd_fontsubset() {
    let sets: Vec<Vec<u16>> = vec![vec![1, 2, 6, 9, 10, 11, 12, 13, 14, 15, 16, 17], vec![1, 2, 5, 9, 10, 11, 12, 13, 14, 15, 16, 17], vec![5, 20, 21, 22, 23, 24, 25, 26, 27, 28, 29, 30],
        vec![7, 30, 31, 32, 33, 34, 35, 36, 37, 38, 39, 40], vec![fontsubset::LAST_GID, 6, 31, 32, 33, 34, 35, 36, 37, 38, 39, 40], vec![3, 4, 8, 9, 12, 15, 18, 21, 24, 27, 30, 33, 36, 39]];
    let mut evaluated = 0u64; let mut bad: Vec<String> = vec![];
    for long_loca in [true, false] { for instr in [false, true] { for st in &sets {
        evaluated += 1;
        let st2 = st.clone();
        let msg = std::sync::Arc::new(std::sync::Mutex::new(String::new())); let m2 = msg.clone();
        let prev = panic::take_hook();
        panic::set_hook(Box::new(move |info| { *m2.lock().unwrap() = info.to_string().chars().take(300).collect(); }));
        let r = panic::catch_unwind(move || fontsubset::check(long_loca, instr, &st2));
        panic::set_hook(prev);
        if r.is_err() && bad.len() < 6 { bad.push(format!("{{\"loca\":\"{}\",\"odd_length_instructions\":{instr},\"glyphs\":{:?},\"problem\":{}}}", if long_loca { "long" } else { "short" }, st, js(&msg.lock().unwrap()))); }
    } } }
    println!("{{\"cmd\":\"fontsubset\",\"bound\":\"synthetic 400-glyph TrueType fonts x (short, long loca) x (no instructions, 3-byte instruction programs) x 6 character sets\",\"evaluated\":{},\"disagreements\":[{}]}}", evaluated, bad.join(","));
}

fn cmd_fmt() {
    // Ec: the concrete contracts of the R6 formatting stubs used by Verus units, over all 256 bytes
    let hd = |n: u8| if n < 10 { b'0' + n } else { b'A' + n - 10 };
    let mut bad = 0;
    for b in 0u16..=255 { let b = b as u8;
        if format!("#{b:02X}").as_bytes() != [b'#', hd(b / 16), hd(b % 16)] { bad += 1; }
        if format!("{b:02X}").as_bytes() != [hd(b / 16), hd(b % 16)] { bad += 1; }
        if format!("\\{b:03o}").as_bytes() != [b'\\', b'0' + b / 64, b'0' + (b / 8) % 8, b'0' + b % 8] { bad += 1; }
    }
    // unit lexer, stub hex_pair / axiom_hex2u: u8::from_str_radix(&format!("{}{}", h1 as char, h2 as char), 16) for two hex digits
    let hv = |c: u8| -> Option<u8> { match c { b'0'..=b'9' => Some(c - b'0'), b'A'..=b'F' => Some(c - b'A' + 10), b'a'..=b'f' => Some(c - b'a' + 10), _ => None } };
    let mut pairs = 0u32;
    for h1 in 0u16..=255 { for h2 in 0u16..=255 { let (h1, h2) = (h1 as u8, h2 as u8);
        if let (Some(a), Some(b)) = (hv(h1), hv(h2)) {
            pairs += 1;
            if u8::from_str_radix(&format!("{}{}", h1 as char, h2 as char), 16) != Ok(a * 16 + b) { bad += 1; }
        }
    } }
    println!("{{\"cmd\":\"fmt\",\"evaluated\":{},\"disagreements\":{}}}", 768 + pairs, bad);
}

// C29 Eb: every operation history up to `len` over keys 0..3 and capacities 0..=4, LruCache vs an abstract LRU model
fn cmd_lru(len: usize) {
    use oxidize_pdf::memory::LruCache;
    // every get/put history of length <= len over NK keys, capacities 0..=4, against an abstract LRU list. After each history the
    // complete recency order is compared too: the history is replayed followed by j fresh puts (j = 1..=cap), and the set of
    // surviving keys must be the model's (so a wrong order is seen even when the history itself never evicts the wrong key).
    const NK: u8 = 5;
    #[derive(Clone, Copy)] enum Op { Get(u8), Put(u8) }
    let ops: Vec<Op> = (0..NK).flat_map(|k| [Op::Get(k), Op::Put(k)]).collect();
    let mut evaluated = 0u64; let mut bad: Vec<String> = vec![];
    let mut idx = vec![0usize; len];
    fn model_put(model: &mut Vec<(u8, u32)>, cap: usize, k: u8, v: u32) {
        if cap > 0 {
            if let Some(p) = model.iter().position(|e| e.0 == k) { model.remove(p); }
            else if model.len() >= cap { model.pop(); }
            model.insert(0, (k, v));
        }
    }
    for cap in 0..=4usize {
        for l in 0..=len {
            let total = ops.len().pow(l as u32);
            for n in 0..total {
                let mut m = n; for i in 0..l { idx[i] = m % ops.len(); m /= ops.len(); }
                evaluated += 1;
                let mut ok = true; let mut trace = vec![];
                // drain = 0: the history itself; drain = j: history + j fresh keys, then presence of every key
                for drain in 0..=cap {
                    let mut real: LruCache<u8, u32> = LruCache::new(cap);
                    let mut model: Vec<(u8, u32)> = vec![]; // front = most recently used
                    let mut stamp = 0u32; trace.clear();
                    for i in 0..l {
                        match ops[idx[i]] {
                            Op::Put(k) => { stamp += 1; real.put(k, stamp); trace.push(format!("put {k}")); model_put(&mut model, cap, k, stamp); }
                            Op::Get(k) => {
                                trace.push(format!("get {k}"));
                                let r = real.get(&k).copied();
                                let e = model.iter().position(|e| e.0 == k).map(|p| { let x = model.remove(p); model.insert(0, x); x.1 });
                                if r != e { ok = false; }
                            }
                        }
                        if real.len() != model.len() || real.len() > cap { ok = false; }
                        if !ok { break; }
                    }
                    if !ok { break; }
                    {
                        for j in 0..drain { let k = 100 + j as u8; stamp += 1; real.put(k, stamp); trace.push(format!("put {k}")); model_put(&mut model, cap, k, stamp); }
                        for k in (0..NK).chain(100..100 + drain as u8) {
                            let r = real.get(&k).copied();
                            let e = model.iter().find(|e| e.0 == k).map(|x| x.1);
                            if r != e { ok = false; trace.push(format!("get {k} -> {:?}, model {:?}", r, e)); break; }
                        }
                        if real.len() != model.len() { ok = false; }
                    }
                    if !ok { break; }
                }
                if !ok && bad.len() < 5 { bad.push(format!("{{\"capacity\":{cap},\"history\":{:?}}}", trace)); }
            }
        }
    }
    println!("{{\"cmd\":\"lru\",\"bound\":\"all histories of length <= {len} over get/put on keys 0..{NK}, capacities 0..=4, each followed by a drain of 0..=capacity fresh keys (recency order check)\",\"evaluated\":{},\"disagreements\":[{}]}}", evaluated, bad.join(","));
}

// C29 Eb: the lock-guarded ObjectCache against the same abstract LRU list. Values come from a 2-element set so that histories
// re-store an equal value for a cached key; after each history the recency order is exposed by a drain of fresh keys.
fn cmd_objcache(len: usize) {
    use oxidize_pdf::memory::ObjectCache;
    use oxidize_pdf::objects::ObjectId;
    use std::sync::Arc;
    const NK: u32 = 3;
    #[derive(Clone, Copy)] enum Op { Get(u32), Put(u32, i64) }
    let mut ops: Vec<Op> = vec![];
    for k in 0..NK { ops.push(Op::Get(k)); ops.push(Op::Put(k, 0)); ops.push(Op::Put(k, 1)); }
    let mut evaluated = 0u64; let mut bad: Vec<String> = vec![];
    let mut idx = vec![0usize; len];
    fn model_put(model: &mut Vec<(u32, i64)>, cap: usize, k: u32, v: i64) {
        if cap > 0 {
            if let Some(p) = model.iter().position(|e| e.0 == k) { model.remove(p); }
            else if model.len() >= cap { model.pop(); }
            model.insert(0, (k, v));
        }
    }
    let val = |c: &ObjectCache, k: u32| -> Option<i64> { c.get(&ObjectId::new(k, 0)).map(|o| match &*o { PdfObject::Integer(i) => *i, _ => -1 }) };
    for cap in 0..=3usize {
        for l in 0..=len {
            let total = ops.len().pow(l as u32);
            for n in 0..total {
                let mut m = n; for i in 0..l { idx[i] = m % ops.len(); m /= ops.len(); }
                evaluated += 1;
                let mut ok = true; let mut trace = vec![];
                for drain in 0..=cap {
                    let real = ObjectCache::new(cap);
                    let mut model: Vec<(u32, i64)> = vec![];
                    trace.clear();
                    for i in 0..l {
                        match ops[idx[i]] {
                            Op::Put(k, v) => { real.put(ObjectId::new(k, 0), Arc::new(PdfObject::Integer(v))); trace.push(format!("put {k}={v}")); model_put(&mut model, cap, k, v); }
                            Op::Get(k) => {
                                trace.push(format!("get {k}"));
                                let r = val(&real, k);
                                let e = model.iter().position(|e| e.0 == k).map(|p| { let x = model.remove(p); model.insert(0, x); x.1 });
                                if r != e { ok = false; }
                            }
                        }
                        let st = real.stats();
                        if st.size != model.len() || st.size > cap { ok = false; }
                        if !ok { break; }
                    }
                    if !ok { break; }
                    {
                        for j in 0..drain { let k = 100 + j as u32; real.put(ObjectId::new(k, 0), Arc::new(PdfObject::Integer(7))); trace.push(format!("put {k}=7")); model_put(&mut model, cap, k, 7); }
                        for k in (0..NK).chain(100..100 + drain as u32) {
                            let r = val(&real, k);
                            let e = model.iter().find(|e| e.0 == k).map(|x| x.1);
                            if r != e { ok = false; trace.push(format!("get {k} -> {:?}, model {:?}", r, e)); break; }
                        }
                    }
                    if !ok { break; }
                }
                if !ok && bad.len() < 5 { bad.push(format!("{{\"capacity\":{cap},\"history\":{:?}}}", trace)); }
            }
        }
    }
    println!("{{\"cmd\":\"objcache\",\"bound\":\"all histories of length <= {len} over get/put on 3 ids with values from {{0,1}}, capacities 0..=3, each followed by a drain of 0..=capacity fresh ids\",\"evaluated\":{},\"disagreements\":[{}]}}", evaluated, bad.join(","));
}

// C21 Eb: API -> content stream -> real parser. (1) show-text operands over a small alphabet incl. backslash, parens,
// CR/LF and non-ASCII; (2) every f64-taking graphics setter with NaN / inf / huge values: the stream must parse strictly.
fn page_content_bytes(page: oxidize_pdf::Page) -> Option<Vec<u8>> {
    let mut doc = oxidize_pdf::Document::new();
    doc.set_compress(false);
    doc.add_page(page);
    let bytes = doc.to_bytes().ok()?;
    let reader = oxidize_pdf::parser::PdfReader::new(std::io::Cursor::new(bytes)).ok()?;
    let document = reader.into_document();
    let parsed_page = document.get_page(0).ok()?;
    Some(document.get_page_content_streams(&parsed_page).ok()?.concat())
}
fn cmd_content(max_len: usize) {
    use oxidize_pdf::parser::content::{ContentOperation, ContentParser};
    use oxidize_pdf::text::Font;
    let mut evaluated = 0u64; let mut bad: Vec<String> = vec![];
    let alphabet: Vec<char> = vec!['A', '\\', '(', ')', '\r', '\n', '\u{e9}', '\u{20ac}', ' ', '1', '0', 't'];
    let mut texts: Vec<String> = vec![];
    fn rec(a: &[char], max: usize, cur: &mut String, out: &mut Vec<String>) { if !cur.is_empty() { out.push(cur.clone()); } if cur.chars().count() == max { return; } for &c in a { cur.push(c); rec(a, max, cur, out); cur.pop(); } }
    rec(&alphabet, max_len, &mut String::new(), &mut texts);
    for t in ["C:\\temp\\new", "a\\101b", "trailing\\", "x\\\\y", "((", "))", "\\)"] { texts.push(t.to_string()); }
    for text in &texts {
        evaluated += 1;
        let want = match TextEncoding::WinAnsiEncoding.encode_strict(text) { Ok(w) => w, Err(_) => continue };
        let r = panic::catch_unwind(|| {
            let mut page = oxidize_pdf::Page::a4();
            page.text().set_font(Font::Helvetica, 12.0).at(72.0, 700.0).write(text).ok()?;
            let content = page_content_bytes(page)?;
            let ops = ContentParser::parse_strict(&content).ok()?;
            Some(ops.into_iter().filter_map(|op| match op { ContentOperation::ShowText(b) => Some(b), _ => None }).collect::<Vec<_>>())
        });
        let ok = matches!(&r, Ok(Some(v)) if v.len() == 1 && v[0] == want);
        if !ok && bad.len() < 6 { bad.push(format!("{{\"what\":\"show text\",\"text\":{},\"want\":{:?},\"got\":{}}}", js(text), want, js(&format!("{:?}", r.map_err(|_| "PANIC"))))); }
    }
    let specials = [f64::NAN, f64::INFINITY, f64::NEG_INFINITY, 1e308, -0.0, 0.5];
    type Setter = (&'static str, fn(&mut oxidize_pdf::graphics::GraphicsContext, f64));
    let setters: Vec<Setter> = vec![
        ("move_to", |g, v| { g.move_to(v, 1.0); }), ("line_to", |g, v| { g.line_to(1.0, v); }),
        ("curve_to", |g, v| { g.curve_to(v, 1.0, 2.0, v, 3.0, 4.0); }), ("rect", |g, v| { g.rect(1.0, 2.0, v, 3.0); }),
        ("circle", |g, v| { g.circle(1.0, 2.0, v); }), ("set_line_width", |g, v| { g.set_line_width(v); }),
        ("set_miter_limit", |g, v| { g.set_miter_limit(v); }), ("set_flatness", |g, v| { g.set_flatness(v); }),
        ("translate", |g, v| { g.translate(v, 1.0); }), ("scale", |g, v| { g.scale(1.0, v); }), ("rotate", |g, v| { g.rotate(v); }),
        ("transform", |g, v| { g.transform(1.0, v, 0.0, 1.0, v, 0.0); }), ("rectangle", |g, v| { g.rectangle(v, 0.0, 1.0, v); }),
        ("set_word_spacing", |g, v| { g.set_word_spacing(v); }), ("set_character_spacing", |g, v| { g.set_character_spacing(v); }),
        ("set_opacity", |g, v| { g.set_opacity(v); }),
    ];
    for (name, f) in &setters { for v in specials {
        evaluated += 1;
        let r = panic::catch_unwind(|| {
            let mut page = oxidize_pdf::Page::a4();
            { let g = page.graphics(); g.move_to(0.0, 0.0); f(g, v); g.line_to(5.0, 5.0); g.stroke(); }
            let content = page_content_bytes(page)?;
            Some((ContentParser::parse_strict(&content).is_ok(), String::from_utf8_lossy(&content).to_string()))
        });
        let ok = matches!(&r, Ok(Some((true, _))));
        if !ok && bad.len() < 6 { bad.push(format!("{{\"what\":\"graphics operand\",\"setter\":\"{name}\",\"value\":\"{v}\",\"got\":{}}}", js(&format!("{:?}", r.map_err(|_| "PANIC"))))); }
    } }
    // (3) positioned glyph runs: GraphicsContext::show_cid_array -> TJ array -> parser. Whatever the segmentation of the array,
    // every glyph must come back, in order, with the total displacement in front of it that the run describes: the `adjust` of
    // every earlier glyph, plus its own `-x_offset` (which is undone right after it).
    {
        use oxidize_pdf::graphics::CidShowElement;
        use oxidize_pdf::parser::content::TextElement;
        let kinds: [(f32, f32); 4] = [(0.0, 0.0), (-30.0, 0.0), (0.0, 25.0), (-30.0, 25.0)];
        let mut runs: Vec<Vec<usize>> = vec![];
        for n in 1..=4usize { for code in 0..4usize.pow(n as u32) { let mut c = code; let mut r = vec![]; for _ in 0..n { r.push(c % 4); c /= 4; } runs.push(r); } }
        for r in runs {
            evaluated += 1;
            let run: Vec<CidShowElement> = r.iter().enumerate().map(|(i, &k)| CidShowElement::new(0x0101 + i as u16, kinds[k].0).with_x_offset(kinds[k].1)).collect();
            let want: Vec<(u16, f32)> = { let mut acc = 0.0f32; run.iter().map(|el| { let before = acc - el.x_offset; acc += el.adjust; (el.cid, before) }).collect() };
            let got = panic::catch_unwind(|| -> Option<Vec<(u16, f32)>> {
                let mut page = oxidize_pdf::Page::a4();
                page.graphics().set_custom_font("Shaped", 10.0);
                page.graphics().show_cid_array(&run, 10.0, 20.0);
                let stream = page.graphics_operations();
                let ops = ContentParser::parse(stream.as_bytes()).ok()?;
                let mut out = vec![]; let mut acc = 0.0f32;
                for op in ops { if let ContentOperation::ShowTextArray(els) = op { for e in els { match e { TextElement::Spacing(v) => acc += v, TextElement::Text(b) => { for ch in b.chunks(2) { if ch.len() == 2 { out.push((u16::from_be_bytes([ch[0], ch[1]]), acc)); } } } } } } }
                Some(out)
            });
            let ok = matches!(&got, Ok(Some(g)) if g.len() == want.len() && g.iter().zip(want.iter()).all(|(a, b)| a.0 == b.0 && (a.1 - b.1).abs() < 0.01));
            if !ok && bad.len() < 8 { bad.push(format!("{{\"glyph_run_kinds\":{:?},\"expected_glyph_displacements\":{},\"got\":{}}}", r, js(&format!("{:?}", want)), js(&format!("{:?}", got.map_err(|_| "PANIC"))))); }
        }
    }
    println!("{{\"cmd\":\"content\",\"bound\":\"show-text strings of length <= {max_len} over a 12-character alphabet plus 7 fixed strings; 16 f64 setters x 6 special values; all positioned glyph runs of <= 4 glyphs over 4 kinds (plain, kerned, displaced, both)\",\"evaluated\":{},\"disagreements\":[{}]}}", evaluated, bad.join(","));
}

// C24 Eb: grayscale / RGB PNG files (filter types 0-4, bit depths 1,2,4,8) built by a reference encoder -> Image::from_png_data
fn png_chunk(t: &[u8; 4], d: &[u8]) -> Vec<u8> {
    let mut c = (d.len() as u32).to_be_bytes().to_vec(); c.extend_from_slice(t); c.extend_from_slice(d);
    let mut crc = flate2::Crc::new(); crc.update(t); crc.update(d);
    c.extend_from_slice(&crc.sum().to_be_bytes()); c
}
fn paeth_ref(a: u8, b: u8, c: u8) -> u8 { let p = a as i32 + b as i32 - c as i32; let (pa, pb, pc) = ((p - a as i32).abs(), (p - b as i32).abs(), (p - c as i32).abs()); if pa <= pb && pa <= pc { a } else if pb <= pc { b } else { c } }
fn png_encode(w: u32, h: u32, depth: u8, ctype: u8, rows: &[Vec<u8>], filter: u8, bpp: usize) -> Vec<u8> {
    use std::io::Write;
    let mut raw = vec![];
    for (y, r) in rows.iter().enumerate() {
        raw.push(filter);
        for i in 0..r.len() {
            let a = if i >= bpp { r[i - bpp] } else { 0 };
            let b = if y > 0 { rows[y - 1][i] } else { 0 };
            let c = if y > 0 && i >= bpp { rows[y - 1][i - bpp] } else { 0 };
            let pred = match filter { 0 => 0, 1 => a, 2 => b, 3 => ((a as u16 + b as u16) / 2) as u8, _ => paeth_ref(a, b, c) };
            raw.push(r[i].wrapping_sub(pred));
        }
    }
    let mut z = flate2::write::ZlibEncoder::new(Vec::new(), flate2::Compression::default());
    z.write_all(&raw).unwrap(); let comp = z.finish().unwrap();
    let mut out = b"\x89PNG\r\n\x1a\n".to_vec();
    let mut ihdr = w.to_be_bytes().to_vec(); ihdr.extend_from_slice(&h.to_be_bytes()); ihdr.extend_from_slice(&[depth, ctype, 0, 0, 0]);
    out.extend(png_chunk(b"IHDR", &ihdr)); out.extend(png_chunk(b"IDAT", &comp)); out.extend(png_chunk(b"IEND", &[])); out
}
fn cmd_png_grid() {
    let mut evaluated = 0u64; let mut bad: Vec<String> = vec![]; let mut subbyte_rejected = 0u64; let mut subbyte_total = 0u64;
    let mut seed = 12345u32; let mut rnd = || { seed = seed.wrapping_mul(1103515245).wrapping_add(12345); (seed >> 16) as u8 };
    for (ctype, channels) in [(0u8, 1usize), (2u8, 3usize)] { for depth in [1u8, 2, 4, 8] { if ctype == 2 && depth != 8 { continue; }
        for w in [1u32, 2, 3, 7, 8, 9, 16, 17] { for h in [1u32, 2, 3] { for filter in 0u8..=4 {
            evaluated += 1;
            let row_bytes = ((w as usize * depth as usize * channels) + 7) / 8;
            let bpp = std::cmp::max(1, depth as usize * channels / 8);
            let rows: Vec<Vec<u8>> = (0..h).map(|_| (0..row_bytes).map(|_| rnd()).collect()).collect();
            // expected 8-bit samples per pixel, as an independent decoder reports them (sub-byte samples scaled to 0..255)
            let mut want: Vec<u8> = vec![];
            for r in &rows { for x in 0..(w as usize * channels) {
                let v = if depth == 8 { r[x] } else { let bit = x * depth as usize; let byte = r[bit / 8]; let sh = 8 - depth as usize - (bit % 8); let s = (byte >> sh) & ((1u8 << depth) - 1); (s as u16 * 255 / ((1u16 << depth) - 1)) as u8 };
                want.push(v);
            } }
            let file = png_encode(w, h, depth, ctype, &rows, filter, bpp);
            let r = panic::catch_unwind(|| oxidize_pdf::graphics::Image::from_png_data(file).map(|im| im.data().to_vec()).map_err(|e| e.to_string()));
            let ok = matches!(&r, Ok(Ok(d)) if *d == want);
            if depth < 8 { subbyte_total += 1; if !ok { subbyte_rejected += 1; continue; } }
            if !ok && bad.len() < 5 { bad.push(format!("{{\"w\":{w},\"h\":{h},\"depth\":{depth},\"ctype\":{ctype},\"filter\":{filter},\"got\":{}}}", js(&format!("{:?}", r.map_err(|_| "PANIC")).chars().take(120).collect::<String>()))); }
        } } }
    } }
    println!("{{\"cmd\":\"png-grid\",\"bound\":\"gray depths 1,2,4,8 and RGB8; widths 1,2,3,7,8,9,16,17; heights 1-3; filter types 0-4; pseudo-random samples\",\"evaluated\":{},\"disagreements\":[{}],\"subbyte_total\":{},\"subbyte_wrong\":{}}}", evaluated, bad.join(","), subbyte_total, subbyte_rejected);
}

// C30 Eb: user-chosen resource names in drawing operators: draw_image(name) -> content stream -> parser -> same name
// C12 Eb: CFF INDEX writer. build_cff_index rebuilds the CharStrings / FDArray / Top DICT INDEX of every CFF subset. Item lists whose total
// data length sits on and around the offSize boundaries (255/256, 65535/65536) are written and decoded again with an independent reader
// (CFF spec, Technical Note #5176 section 5: count, offSize, count+1 offsets relative to the byte before the data, 1-based).
fn cmd_cffindex() {
    use oxidize_pdf::text::fonts::cff::index::build_cff_index;
    fn read_index(b: &[u8]) -> Result<Vec<Vec<u8>>, String> {
        if b.len() < 2 { return Err("short".into()); }
        let count = u16::from_be_bytes([b[0], b[1]]) as usize;
        if count == 0 { return if b.len() == 2 { Ok(vec![]) } else { Err("empty INDEX longer than 2 bytes".into()) }; }
        let osz = *b.get(2).ok_or("no offSize")? as usize;
        if !(1..=4).contains(&osz) { return Err(format!("offSize {osz}")); }
        let off = |k: usize| -> Result<usize, String> { let p = 3 + k * osz; let s = b.get(p..p + osz).ok_or("offset array truncated")?; Ok(s.iter().fold(0usize, |a, x| a * 256 + *x as usize)) };
        let base = 3 + (count + 1) * osz - 1;
        let mut items = vec![];
        for k in 0..count {
            let (a, e) = (off(k)?, off(k + 1)?);
            if a == 0 || e < a { return Err(format!("offsets decrease or zero ({a} -> {e}), offSize {osz}")); }
            items.push(b.get(base + a..base + e).ok_or("data truncated")?.to_vec());
        }
        if base + off(count)? != b.len() { return Err("last offset is not the end of the data".into()); }
        Ok(items)
    }
    let mut evaluated = 0u64; let mut bad: Vec<String> = vec![];
    let totals: Vec<usize> = vec![0, 1, 2, 253, 254, 255, 256, 257, 65533, 65534, 65535, 65536, 65537, 70000];
    for total in totals {
        for pieces in [1usize, 2, 3, 7] {
            evaluated += 1;
            // split `total` bytes into `pieces` items (first items get the remainder; an item may be empty)
            let mut items: Vec<Vec<u8>> = vec![]; let mut left = total; let mut v = 0u8;
            for p in 0..pieces { let n = if p + 1 == pieces { left } else { left / (pieces - p) + (p % 2) }.min(left); left -= n; items.push((0..n).map(|_| { v = v.wrapping_mul(31).wrapping_add(7); v }).collect()); }
            let refs: Vec<&[u8]> = items.iter().map(|i| i.as_slice()).collect();
            let r = panic::catch_unwind(|| build_cff_index(&refs));
            let ok = match &r { Ok(bytes) => read_index(bytes).map(|got| got == items).unwrap_or(false), Err(_) => false };
            if !ok && bad.len() < 6 { bad.push(format!("{{\"total_data_bytes\":{total},\"items\":{pieces},\"outcome\":{}}}", js(&match &r { Ok(bytes) => format!("{:?}", read_index(bytes).map(|g| g.len())), Err(_) => "PANIC".to_string() }))); } else if !ok { bad.push(String::new()); }
        }
    }
    let n = bad.len(); bad.retain(|b| !b.is_empty());
    println!("{{\"cmd\":\"cffindex\",\"bound\":\"14 total data lengths on and around the offSize boundaries (0..2, 253..257, 65533..65537, 70000) x 1, 2, 3, 7 items -> build_cff_index -> independent INDEX reader\",\"evaluated\":{},\"disagreement_count\":{},\"disagreements\":[{}]}}", evaluated, n, bad.join(","));
}

fn cmd_opnames() {
    use oxidize_pdf::parser::content::{ContentOperation, ContentParser};
    // ISO 32000-1 7.2.2 / 7.3.5: every byte that is not white space, a delimiter or '#' is a regular character and may be written
    // raw in a name (bytes >= 0x80 included). Names made only of such bytes must be read back unchanged; names with white
    // space, delimiters or '#' are the recorded finding KF-C30-opnames (operator names are written raw).
    let names = ["Im1", "A_b-1.x", "A B", "A/B", "A(B", "A#B", "A%B", "\u{e9}", "Bild_\u{e4}", "\u{56fe}\u{50cf}", "\u{41b}\u{43e}\u{433}\u{43e}", "x\u{20ac}y", "a+b=c", "q'\"^~", "n\u{a0}b"];
    let mut wrong = 0u64; let mut ex: Vec<String> = vec![]; let mut plain_wrong = 0u64; let mut evaluated = 0u64;
    for name in names {
        let regular = name.bytes().all(|b| !matches!(b, 0 | 9 | 10 | 12 | 13 | 32 | b'(' | b')' | b'<' | b'>' | b'[' | b']' | b'{' | b'}' | b'/' | b'%' | b'#'));
        for op in ["Do", "sh", "Tf"] {
            evaluated += 1;
            let r = panic::catch_unwind(|| {
                let mut page = oxidize_pdf::Page::a4();
                {
                    let g = page.graphics();
                    match op {
                        "Do" => { g.draw_image(name, 0.0, 0.0, 10.0, 10.0); }
                        "sh" => { g.paint_shading(name); }
                        _ => { g.set_custom_font(name, 12.0); g.begin_text(); g.show_text("x").ok(); g.end_text(); }
                    }
                }
                let content = page_content_bytes(page)?;
                let ops = ContentParser::parse(&content).ok()?;
                Some(ops.into_iter().filter_map(|o| match o {
                    ContentOperation::PaintXObject(n) if op == "Do" => Some(n),
                    ContentOperation::ShadingFill(n) if op == "sh" => Some(n),
                    ContentOperation::SetFont(n, _) if op == "Tf" => Some(n),
                    _ => None }).collect::<Vec<_>>())
            });
            let ok = matches!(&r, Ok(Some(v)) if !v.is_empty() && v.iter().all(|x| x == name));
            if !ok {
                if regular { plain_wrong += 1; } else { wrong += 1; }
                if ex.len() < 6 && (regular || wrong <= 2) { ex.push(format!("{{\"name\":{},\"operator\":{},\"regular\":{},\"read_back\":{}}}", js(name), js(op), regular, js(&format!("{:?}", r.map_err(|_| "PANIC"))))); }
            }
        }
    }
    println!("{{\"cmd\":\"opnames\",\"bound\":\"15 names (ASCII, Latin-1, CJK, Cyrillic, euro sign, NBSP, quotes; white space, '/', '(', '#', '%') x operators Do, sh, Tf through GraphicsContext -> content stream -> ContentParser\",\"evaluated\":{},\"disagreements\":{},\"irregular_wrong\":{},\"examples\":[{}]}}", evaluated, plain_wrong, wrong, ex.join(","));
}

// C09 Eb: object values through the REAL writer and the REAL reader. Every string / name of <= len symbols over a small
// alphabet (delimiters, backslash, CR/LF, control bytes, digits after control bytes, '#') is stored as a property of an annotation
// (which reaches write_object_value / write_object_value_to_buffer), the document is written with the legacy and the modern
// (object streams) configuration, re-opened with PdfReader, and the value read back must be the value stored.
fn cmd_objects(len: usize) {
    use oxidize_pdf::annotations::{Annotation, AnnotationType};
    use oxidize_pdf::geometry::{Point, Rectangle};
    use oxidize_pdf::objects::Object;
    use oxidize_pdf::writer::WriterConfig;
    use oxidize_pdf::parser::PdfReader;
    let salpha: Vec<char> = vec!['A', '7', '\\', '(', ')', '\r', '\n', '\u{1}', '\u{7f}', ' ', '\u{e9}'];
    let nalpha: Vec<char> = vec!['A', '4', ' ', '/', '(', '#', '%', '[', '\u{1}', '\u{e9}', '\u{20ac}'];
    fn words(alpha: &[char], len: usize) -> Vec<String> {
        let mut out = vec![String::new()]; let mut cur = vec![String::new()];
        for _ in 0..len { let mut nxt = vec![]; for w in &cur { for c in alpha { let mut x = w.clone(); x.push(*c); nxt.push(x); } } out.extend(nxt.iter().cloned()); cur = nxt; }
        out
    }
    let strings = words(&salpha, len);
    let names: Vec<String> = words(&nalpha, len).into_iter().filter(|n| !n.is_empty()).collect();
    let mut values: Vec<Object> = strings.iter().map(|s| Object::String(s.clone())).collect();
    values.extend(names.iter().map(|n| Object::Name(n.clone())));
    // names as dictionary keys too
    let keyed: Vec<Object> = names.iter().map(|n| { let mut d = oxidize_pdf::objects::Dictionary::new(); d.set(n.as_str(), Object::Integer(1)); Object::Dictionary(d) }).collect();
    values.extend(keyed);
    let run = |vals: &[(usize, &Object)], modern: bool| -> Result<Vec<(usize, String)>, String> {
        let mut doc = oxidize_pdf::Document::new();
        let mut page = oxidize_pdf::Page::a4();
        let mut annot = Annotation::new(AnnotationType::Text, Rectangle::new(Point::new(10.0, 10.0), Point::new(50.0, 50.0)));
        for (i, v) in vals { annot.properties.set(format!("V{i}"), (*v).clone()); }
        page.add_annotation(annot);
        doc.add_page(page);
        let bytes = doc.to_bytes_with_config(if modern { WriterConfig::modern() } else { WriterConfig::legacy() }).map_err(|e| e.to_string())?;
        let mut reader = PdfReader::new(std::io::Cursor::new(&bytes[..])).map_err(|e| format!("reader: {e}"))?;
        let pages = reader.pages().map_err(|e| format!("pages: {e}"))?.clone();
        let kids = pages.get("Kids").and_then(|o| o.as_array()).ok_or("kids")?.clone();
        let (pn, pg) = kids.0[0].as_reference().ok_or("page ref")?;
        let page = reader.get_object(pn, pg).map_err(|e| format!("page: {e}"))?.clone();
        let annots = page.as_dict().and_then(|d| d.get("Annots")).cloned().ok_or("annots")?;
        let annots = match annots.as_reference() { Some((n, g)) => reader.get_object(n, g).map_err(|e| e.to_string())?.clone(), None => annots };
        let a0 = annots.as_array().ok_or("annots array")?.0[0].clone();
        let a0 = match a0.as_reference() { Some((n, g)) => reader.get_object(n, g).map_err(|e| e.to_string())?.clone(), None => a0 };
        let d = a0.as_dict().ok_or("annot dict")?;
        let mut bad = vec![];
        for (i, v) in vals {
            let got = d.get(&format!("V{i}"));
            let ok = match (v, got) {
                (Object::String(s), Some(PdfObject::String(g))) => g.as_bytes() == s.as_bytes(),
                (Object::Name(n), Some(PdfObject::Name(g))) => g.as_str() == n.as_str(),
                (Object::Dictionary(dd), Some(PdfObject::Dictionary(g))) => g.0.len() == 1 && dd.entries().all(|(k, _)| g.0.keys().any(|gk| gk.as_str() == k.as_str())),
                _ => false,
            };
            if !ok { bad.push((*i, format!("{:?}", got))); }
        }
        Ok(bad)
    };
    let mut evaluated = 0u64; let mut bad: Vec<String> = vec![]; let mut nbad = 0usize;
    for modern in [false, true] {
        let all: Vec<(usize, &Object)> = values.iter().enumerate().collect();
        evaluated += all.len() as u64;
        // a failing batch is bisected so that one broken token does not hide the others (at most 3 witnesses per configuration)
        let mut work: Vec<Vec<(usize, &Object)>> = vec![all];
        let mut found = 0;
        while let Some(part) = work.pop() {
            if found >= 3 { break; }
            let r = panic::catch_unwind(|| run(&part, modern));
            let fine = matches!(&r, Ok(Ok(b)) if b.is_empty());
            if fine { continue; }
            if part.len() == 1 {
                let desc = match r { Ok(Ok(b)) => b[0].1.clone(), Ok(Err(e)) => format!("error: {e}"), Err(_) => "PANIC".to_string() };
                bad.push(format!("{{\"config\":\"{}\",\"value\":{},\"read_back\":{}}}", if modern { "modern" } else { "legacy" }, js(&format!("{:?}", part[0].1)), js(&desc)));
                found += 1; nbad += 1; continue;
            }
            if let Ok(Ok(b)) = &r { if found == 0 && work.is_empty() { nbad += b.len().saturating_sub(1); } }
            let mid = part.len() / 2;
            work.push(part[mid..].to_vec()); work.push(part[..mid].to_vec());
        }
    }
    let n = nbad.max(bad.len());
    println!("{{\"cmd\":\"objects\",\"bound\":\"strings and names (as values and as dictionary keys) of <= {len} symbols over 11-symbol alphabets (delimiters, escapes, control bytes, non-ASCII), legacy and object-stream writer configurations\",\"evaluated\":{},\"disagreement_count\":{},\"disagreements\":[{}]}}", evaluated, n, bad.join(","));
}

// C04 Eb: revision chains. Objects 5 and 6 are defined in a base revision and then, in up to `max_upd` incremental updates,
// each is left alone, redefined as a plain object, redefined inside a NEW object stream, or freed; each revision ends in a
// classic table or a cross-reference stream. Every file is opened with the default/strict/lenient presets and the two objects
// are resolved in both orders (and each twice): the result must be the newest definition (null when freed).
mod revs {
    #[derive(Clone, Copy, PartialEq, Debug)]
    pub enum Row { Free { gen: u16 }, InUse { offset: usize }, Compressed { stream: u32, index: u32 } }
    pub struct Pdf { pub buf: Vec<u8>, pub last_xref: Option<usize> }
    impl Pdf {
        pub fn new() -> Self { Pdf { buf: b"%PDF-1.7\n".to_vec(), last_xref: None } }
        fn push(&mut self, s: &str) { self.buf.extend_from_slice(s.as_bytes()); }
        pub fn obj(&mut self, num: u32, body: &str) -> usize { let off = self.buf.len(); self.push(&format!("{num} 0 obj\n{body}\nendobj\n")); off }
        pub fn stream(&mut self, num: u32, dict_extra: &str, data: &[u8]) -> usize {
            let off = self.buf.len();
            self.push(&format!("{num} 0 obj\n<<{dict_extra}/Length {}>>\nstream\n", data.len()));
            self.buf.extend_from_slice(data); self.push("\nendstream\nendobj\n"); off
        }
        pub fn objstm(&mut self, num: u32, members: &[(u32, String)]) -> usize {
            let mut header = String::new(); let mut bodies = String::new();
            for (n, body) in members { header.push_str(&format!("{} {} ", n, bodies.len())); bodies.push_str(body); bodies.push(' '); }
            let first = header.len(); let data = format!("{header}{bodies}");
            self.stream(num, &format!("/Type/ObjStm/N {}/First {first}", members.len()), data.as_bytes())
        }
        fn runs(rows: &[(u32, Row)]) -> Vec<(usize, usize)> {
            let mut out = vec![]; let mut i = 0;
            while i < rows.len() { let mut j = i; while j + 1 < rows.len() && rows[j + 1].0 == rows[j].0 + 1 { j += 1; } out.push((i, j)); i = j + 1; }
            out
        }
        pub fn finish_classic(&mut self, rows: &[(u32, Row)], size: u32) {
            let mut rows = rows.to_vec(); rows.sort_by_key(|(n, _)| *n);
            let xref_off = self.buf.len(); self.push("xref\n");
            for (i, j) in Self::runs(&rows) {
                self.push(&format!("{} {}\n", rows[i].0, j - i + 1));
                for (n, row) in &rows[i..=j] { match *row {
                    Row::Free { gen } => self.push(&format!("{:010} {:05} f \n", 0, if *n == 0 { 65535 } else { gen })),
                    Row::InUse { offset } => self.push(&format!("{offset:010} 00000 n \n")),
                    Row::Compressed { .. } => unreachable!(),
                } }
            }
            let prev = self.last_xref.map(|p| format!("/Prev {p}")).unwrap_or_default();
            self.push(&format!("trailer\n<</Size {size}/Root 1 0 R{prev}>>\nstartxref\n{xref_off}\n%%EOF\n"));
            self.last_xref = Some(xref_off);
        }
        pub fn finish_stream(&mut self, xref_num: u32, rows: &[(u32, Row)], size: u32) {
            let xref_off = self.buf.len();
            let mut rows = rows.to_vec(); rows.push((xref_num, Row::InUse { offset: xref_off })); rows.sort_by_key(|(n, _)| *n);
            let mut index = String::new(); let mut data: Vec<u8> = Vec::new();
            for (i, j) in Self::runs(&rows) {
                index.push_str(&format!("{} {} ", rows[i].0, j - i + 1));
                for (n, row) in &rows[i..=j] {
                    let (t, a, b): (u8, u32, u16) = match *row { Row::Free { gen } => (0, 0, if *n == 0 { 65535 } else { gen }), Row::InUse { offset } => (1, offset as u32, 0), Row::Compressed { stream, index } => (2, stream, index as u16) };
                    data.push(t); data.extend_from_slice(&a.to_be_bytes()); data.extend_from_slice(&b.to_be_bytes());
                }
            }
            let prev = self.last_xref.map(|p| format!("/Prev {p}")).unwrap_or_default();
            self.stream(xref_num, &format!("/Type/XRef/Size {size}/W[1 4 2]/Index[{index}]/Root 1 0 R{prev}"), &data);
            self.push(&format!("startxref\n{xref_off}\n%%EOF\n"));
            self.last_xref = Some(xref_off);
        }
    }
}
fn cmd_revisions(max_upd: usize) {
    use revs::*;
    use oxidize_pdf::parser::PdfReader;
    #[derive(Clone, Copy, PartialEq, Debug)] enum St { Keep, Plain, Comp, Free }
    let upd_states = [St::Keep, St::Plain, St::Comp, St::Free];
    // one revision = (state of 5, state of 6, use an xref stream?)
    let mut base_revs: Vec<(St, St, bool)> = vec![];
    for a in [St::Plain, St::Comp] { for b in [St::Plain, St::Comp] { for xs in [false, true] { if (a == St::Comp || b == St::Comp) && !xs { continue; } base_revs.push((a, b, xs)); } } }
    let mut upd_revs: Vec<(St, St, bool)> = vec![];
    for a in upd_states { for b in upd_states { if a == St::Keep && b == St::Keep { continue; } for xs in [false, true] { if (a == St::Comp || b == St::Comp) && !xs { continue; } upd_revs.push((a, b, xs)); } } }
    let mut histories: Vec<Vec<(St, St, bool)>> = base_revs.iter().map(|b| vec![*b]).collect();
    let mut frontier = histories.clone();
    for _ in 0..max_upd { let mut nxt = vec![]; for h in &frontier { for u in &upd_revs { let mut x = h.clone(); x.push(*u); nxt.push(x); } } histories.extend(nxt.iter().cloned()); frontier = nxt; }
    let mut evaluated = 0u64; let mut bad: Vec<String> = vec![]; let mut nbad = 0u64;
    for h in &histories {
        // build the file and the model
        let mut p = Pdf::new(); let mut next_num = 7u32; let mut expect: [Option<i64>; 2] = [None, None];
        for (ri, (sa, sb, xs)) in h.iter().enumerate() {
            let mut rows: Vec<(u32, Row)> = vec![];
            if ri == 0 {
                rows.push((0, Row::Free { gen: 65535 }));
                let o1 = p.obj(1, "<</Type/Catalog/Pages 2 0 R>>"); let o2 = p.obj(2, "<</Type/Pages/Count 1/Kids[3 0 R]>>");
                let o3 = p.obj(3, "<</Type/Page/Parent 2 0 R/MediaBox[0 0 612 792]>>"); let o4 = p.obj(4, "(filler)");
                rows.extend([(1, Row::InUse { offset: o1 }), (2, Row::InUse { offset: o2 }), (3, Row::InUse { offset: o3 }), (4, Row::InUse { offset: o4 })]);
            }
            let mut members: Vec<(u32, String)> = vec![];
            for (k, st) in [(0usize, *sa), (1usize, *sb)] {
                let num = 5 + k as u32; let val = (num as i64) * 100 + ri as i64;
                match st {
                    St::Keep => {}
                    St::Plain => { let o = p.obj(num, &val.to_string()); rows.push((num, Row::InUse { offset: o })); expect[k] = Some(val); }
                    St::Comp => { members.push((num, val.to_string())); expect[k] = Some(val); }
                    St::Free => { rows.push((num, Row::Free { gen: 1 })); expect[k] = None; }
                }
            }
            if !members.is_empty() {
                let sn = next_num; next_num += 1;
                let o = p.objstm(sn, &members);
                rows.push((sn, Row::InUse { offset: o }));
                for (i, (n, _)) in members.iter().enumerate() { rows.push((*n, Row::Compressed { stream: sn, index: i as u32 })); }
            }
            if *xs { let xn = next_num; next_num += 1; p.finish_stream(xn, &rows, next_num); } else { p.finish_classic(&rows, next_num); }
        }
        for (pname, opt) in [("default", ParseOptions::default()), ("strict", ParseOptions::strict()), ("lenient", ParseOptions::lenient())] {
            for order in [[5u32, 6, 5, 6], [6u32, 5, 6, 5]] {
                evaluated += 1;
                let buf = p.buf.clone(); let opt = opt.clone();
                let r = panic::catch_unwind(move || -> Result<Vec<String>, String> {
                    let mut rd = PdfReader::new_with_options(std::io::Cursor::new(buf), opt).map_err(|e| format!("open: {e}"))?;
                    let mut got = vec![];
                    for n in order { got.push(match rd.get_object(n, 0) { Ok(PdfObject::Integer(i)) => format!("{i}"), Ok(PdfObject::Null) => "null".to_string(), Ok(o) => format!("{:?}", o), Err(e) => format!("Err({e})") }); }
                    Ok(got)
                });
                let want: Vec<String> = order.iter().map(|n| match expect[(*n - 5) as usize] { Some(v) => v.to_string(), None => "null".to_string() }).collect();
                let ok = matches!(&r, Ok(Ok(g)) if *g == want);
                if !ok { nbad += 1; if bad.len() < 5 { bad.push(format!("{{\"history\":{},\"preset\":\"{pname}\",\"read_order\":{:?},\"expected\":{:?},\"got\":{}}}", js(&format!("{:?}", h)), order, want, js(&format!("{:?}", r.map_err(|_| "PANIC"))))); } }
            }
        }
    }
    println!("{{\"cmd\":\"revisions\",\"bound\":\"base revision + up to {max_upd} incremental updates over two objects x {{keep, plain, in a new object stream, freed}} x {{classic table, xref stream}}; presets default/strict/lenient; both read orders\",\"evaluated\":{},\"disagreement_count\":{},\"disagreements\":[{}]}}", evaluated, nbad, bad.join(","));
}

fn main() {
    let args: Vec<String> = std::env::args().collect();
    panic::set_hook(Box::new(|_| {}));
    match args.get(1).map(|s| s.as_str()) {
        Some("letters") => cmd_letters(args.get(2).and_then(|s| s.parse().ok()).unwrap_or(5000)),
        Some("enc-tables") => cmd_enc_tables(),
        Some("a85hex") => cmd_a85hex(args.get(2).and_then(|s| s.parse().ok()).unwrap_or(5)),
        Some("a85hex-roundtrip") => cmd_a85hex_roundtrip(args.get(2).and_then(|s| s.parse().ok()).unwrap_or(4)),
        Some("fmt") => cmd_fmt(),
        Some("opnames") => cmd_opnames(),
        Some("cffindex") => cmd_cffindex(),
        Some("fontsubset") => cmd_fontsubset(),
        Some("image-alpha") => cmd_image_alpha(),
        Some("crypto-ref") => cmd_crypto_ref(args.get(2).and_then(|s| s.parse().ok()).unwrap_or(120)),
        Some("pageops") => cmd_pageops(),
        Some("cmap") => cmd_cmap(args.get(2).and_then(|s| s.parse().ok()).unwrap_or(2)),
        Some("pagetree") => cmd_pagetree(args.get(2).and_then(|s| s.parse().ok()).unwrap_or(2)),
        Some("hostile-inputs") => cmd_hostile_inputs(),
        Some("hostile-case") => cmd_hostile_case(args[2].parse().unwrap()),
        Some("embedded-font") => cmd_embedded_font(),
        Some("writer-configs") => cmd_writer_configs(args.get(2).map(|s| s == "full").unwrap_or(false)),
        Some("notes-history") => cmd_notes_history(args.get(2).and_then(|s| s.parse().ok()).unwrap_or(3)),
        Some("filters-roundtrip") => cmd_filters_roundtrip(args.get(2).and_then(|s| s.parse().ok()).unwrap_or(20000)),
        Some("revisions") => cmd_revisions(args.get(2).and_then(|s| s.parse().ok()).unwrap_or(2)),
        Some("objects") => cmd_objects(args.get(2).and_then(|s| s.parse().ok()).unwrap_or(2)),
        Some("png-grid") => cmd_png_grid(),
        Some("png") => {
            // png <hex of a PNG file>: Image::from_png_data on it
            let data: Vec<u8> = (0..args[2].len() / 2).map(|i| u8::from_str_radix(&args[2][2 * i..2 * i + 2], 16).unwrap()).collect();
            let r = panic::catch_unwind(|| oxidize_pdf::graphics::Image::from_png_data(data).map(|im| (im.width(), im.height(), im.data().to_vec())).map_err(|e| e.to_string()));
            println!("{{\"cmd\":\"png\",\"result\":{}}}", js(&format!("{:?}", r.map_err(|_| "PANIC"))));
        }
        Some("rotate") => {
            // rotate <Rotate value>: minimal one-page PDF with that /Rotate, then rotate_all_pages(.., Clockwise90)
            let rot = args[2].clone();
            let mut pdf: Vec<u8> = b"%PDF-1.4\n".to_vec();
            let mut offs = vec![];
            let objs = vec![
                "1 0 obj\n<< /Type /Catalog /Pages 2 0 R >>\nendobj\n".to_string(),
                "2 0 obj\n<< /Type /Pages /Kids [3 0 R] /Count 1 >>\nendobj\n".to_string(),
                format!("3 0 obj\n<< /Type /Page /Parent 2 0 R /MediaBox [0 0 200 200] /Rotate {rot} >>\nendobj\n"),
            ];
            for o in &objs { offs.push(pdf.len()); pdf.extend_from_slice(o.as_bytes()); }
            let xref = pdf.len();
            pdf.extend_from_slice(b"xref\n0 4\n0000000000 65535 f \n");
            for o in &offs { pdf.extend_from_slice(format!("{:010} 00000 n \n", o).as_bytes()); }
            pdf.extend_from_slice(format!("trailer\n<< /Size 4 /Root 1 0 R >>\nstartxref\n{xref}\n%%EOF\n").as_bytes());
            let dir = std::env::temp_dir();
            let inp = dir.join("verif_rotate_in.pdf"); let out = dir.join("verif_rotate_out.pdf");
            std::fs::write(&inp, &pdf).unwrap();
            let r = panic::catch_unwind(|| oxidize_pdf::operations::rotate::rotate_all_pages(&inp, &out, oxidize_pdf::operations::rotate::RotationAngle::Clockwise90).map_err(|e| e.to_string()));
            let _ = std::fs::remove_file(&inp); let _ = std::fs::remove_file(&out);
            println!("{{\"cmd\":\"rotate\",\"rotate\":{},\"result\":{}}}", js(&rot), js(&format!("{:?}", r.map_err(|_| "PANIC"))));
        }
        Some("content") => cmd_content(args.get(2).and_then(|s| s.parse().ok()).unwrap_or(2)),
        Some("xrefstm") => {
            // xrefstm <w0> <w1> <w2> <first> <count> <datalen>: run XRefStream::parse + to_xref_entries on a synthetic stream dictionary
            use oxidize_pdf::parser::objects::PdfArray;
            use oxidize_pdf::parser::xref_stream::XRefStream;
            let v: Vec<i64> = args[2..].iter().map(|x| x.parse().unwrap()).collect();
            let mut d = PdfDictionary::new();
            d.insert("W".to_string(), PdfObject::Array(PdfArray(vec![PdfObject::Integer(v[0]), PdfObject::Integer(v[1]), PdfObject::Integer(v[2])])));
            d.insert("Index".to_string(), PdfObject::Array(PdfArray(vec![PdfObject::Integer(v[3]), PdfObject::Integer(v[4])])));
            d.insert("Size".to_string(), PdfObject::Integer(v[4]));
            let data = vec![1u8; v[5] as usize];
            let r = panic::catch_unwind(|| {
                let mut cur = std::io::Cursor::new(Vec::<u8>::new());
                XRefStream::parse(&mut cur, d, data, &ParseOptions::default()).and_then(|x| x.to_xref_entries()).map(|e| e.len())
            });
            println!("{{\"cmd\":\"xrefstm\",\"args\":{:?},\"result\":{}}}", v, js(&format!("{:?}", r.map_err(|_| "PANIC"))));
        }
        Some("labels") => cmd_labels(args.get(2).and_then(|s| s.parse().ok()).unwrap_or(5000)),
        Some("objcache") => cmd_objcache(args.get(2).and_then(|s| s.parse().ok()).unwrap_or(4)),
        Some("lru") => cmd_lru(args.get(2).and_then(|s| s.parse().ok()).unwrap_or(6)),
        Some("decode") => {
            // decode <FilterName> <hex bytes> [max]: run the real decoder on one input
            let filter = args[2].clone();
            let data: Vec<u8> = (0..args[3].len() / 2).map(|i| u8::from_str_radix(&args[3][2 * i..2 * i + 2], 16).unwrap()).collect();
            let dict = dict_with_filter(&filter);
            let opts = ParseOptions::default();
            let r = match args.get(4).and_then(|s| s.parse::<usize>().ok()) {
                Some(m) => panic::catch_unwind(|| decode_stream_with_limit(&data, &dict, &opts, m)),
                None => panic::catch_unwind(|| decode_stream(&data, &dict, &opts)),
            };
            println!("{{\"cmd\":\"decode\",\"filter\":{},\"input\":{:?},\"result\":{}}}", js(&filter), data, js(&format!("{:?}", r.map_err(|_| "PANIC"))));
        }
        _ => { eprintln!("usage: verif-replay letters|enc-tables|a85hex|a85hex-roundtrip|fmt"); std::process::exit(2); }
    }
}
