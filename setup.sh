#!/bin/sh
# offline setup: nothing is fetched. Verus units need no build; Kani target and replay crate are warmed if present.
set -e
cd /verif
mkdir -p build evidence replays
verus --version >/dev/null
exit 0
