#!/bin/sh
# offline setup: nothing is fetched. Verus units need no build; the Kani target directory is warmed (crate + deps compiled
# once under cfg(kani)) so that the first quick check does not pay the cold build.
cd /verif
mkdir -p build evidence replays
export PATH="$PATH:/root/.cargo/bin"
export CARGO_NET_OFFLINE=true
verus --version >/dev/null || exit 1
( cd /repo/oxidize-pdf-core && CARGO_TARGET_DIR=/verif/build/kani-target timeout 1500 cargo kani -Z function-contracts -Z stubbing --output-format terse --harness c01_hex_digit_value >/verif/build/setup_kani.log 2>&1 ) || echo "warning: kani warm-up did not complete (checks will build on first use)"
# replay crate (stand-ins and witness replay run the real code natively): built once here so that no quick check pays the cold build
( cp /repo/Cargo.lock /verif/replay/Cargo.lock && cd /verif/replay && CARGO_TARGET_DIR=/verif/build/replay-target timeout 1500 cargo build --offline >/verif/build/setup_replay.log 2>&1 ) || echo "warning: replay crate warm-up did not complete (checks will build on first use)"
exit 0
